//! Byte-level oracles shared by the proptest driver and the libFuzzer targets:
//! C02 (decode differential), C03 (no panic + post-conditions), C04 (consumption), C16 (re-serialisation).
use crate::model::*;
use crate::refcodec::{self, Verdict};
use crate::util::{guard, hex_short};
use crate::verdict::*;
use crate::viol;
use byteorder::{BigEndian, LittleEndian};
use dlt_core::dlt::{Endianness, Message, PayloadContent};
use dlt_core::filtering::{DltFilterConfig, ProcessedDltFilterConfig};
use dlt_core::parse::*;
use std::cell::Cell;

// ------------------------------------------------------------------------------------------------
// logger: forces evaluation of the `trace!` arguments inside dlt-core (they slice the input)

thread_local! {
    static FORMAT_LOGS: Cell<bool> = const { Cell::new(false) };
    static IN_LOG: Cell<bool> = const { Cell::new(false) };
    /// (nesting flag, records seen) of the sink below
    static SINK: Cell<(bool, u32)> = const { Cell::new((false, 0)) };
}
/// what a DLT sink logger built on this crate does with a record: wrap its text into a small verbose message,
/// serialise it, and (a loop-back sink) parse it again
fn sink_record() {
    use dlt_core::dlt::*;
    let conf = MessageConfig {
        version: 1,
        counter: 0,
        endianness: Endianness::Big,
        ecu_id: Some("SINK".to_string()),
        session_id: None,
        timestamp: None,
        payload: PayloadContent::Verbose(vec![Argument {
            type_info: TypeInfo { kind: TypeInfoKind::StringType, coding: StringCoding::UTF8, has_variable_info: false, has_trace_info: false },
            name: None,
            unit: None,
            fixed_point: None,
            value: Value::StringVal("log".to_string()),
        }]),
        extended_header_info: Some(ExtendedHeaderConfig { message_type: MessageType::Log(LogLevel::Info), app_id: "SNK".to_string(), context_id: "LOG".to_string() }),
    };
    let bytes = Message::new(conf, None).as_bytes();
    std::hint::black_box(dlt_core::parse::dlt_message(&bytes, None, false).is_ok());
    // ... and shows a scaled signal in physical units
    let scaled = Argument {
        type_info: TypeInfo { kind: TypeInfoKind::UnsignedFixedPoint(FloatWidth::Width32), coding: StringCoding::ASCII, has_variable_info: true, has_trace_info: false },
        name: Some("rpm".to_string()),
        unit: Some("1/min".to_string()),
        fixed_point: Some(FixedPoint { quantization: 0.5, offset: FixedPointValue::I32(10) }),
        value: Value::U32(3000),
    };
    std::hint::black_box(scaled.to_real_value());
}
struct NullLogger;
impl log::Log for NullLogger {
    fn enabled(&self, _: &log::Metadata) -> bool {
        true
    }
    fn log(&self, record: &log::Record) {
        // a record emitted by code the sink itself called (re-entry) is dropped: a sink must not recurse into itself
        if IN_LOG.with(|f| f.replace(true)) {
            return;
        }
        self.log_outer(record);
        IN_LOG.with(|f| f.set(false));
    }
    fn flush(&self) {}
}
impl NullLogger {
    fn log_outer(&self, record: &log::Record) {
        // a log sink may itself use the crate (a DLT sink stamps its records): re-entering the pure helpers from inside
        // a log call must be harmless
        let ts = dlt_core::dlt::DltTimeStamp::from_ms(1_700_000_000_123);
        std::hint::black_box(dlt_core::dlt::DltTimeStamp::from_us(
            ts.seconds as u64 * 1_000_000 + ts.microseconds as u64,
        ));
        if FORMAT_LOGS.with(|f| f.get()) {
            let s = format!("{}", record.args());
            std::hint::black_box(s);
        }
        // every 16th record of a thread is also sent through a DLT sink (not while the sink itself is logging)
        let (nested, seen) = SINK.with(|c| c.get());
        if !nested {
            // (every record while a failure is being shrunk or replayed, so that what was found reproduces)
            let period = if crate::runner::shrinking() || SINK_ALWAYS.load(std::sync::atomic::Ordering::Relaxed) { 1 } else { 16 };
            SINK.with(|c| c.set((seen % period == 0, seen.wrapping_add(1))));
            if seen % period == 0 {
                sink_record();
                SINK.with(|c| c.set((false, seen.wrapping_add(1))));
            }
        }
    }
}
static LOGGER: NullLogger = NullLogger;
pub static SINK_ALWAYS: std::sync::atomic::AtomicBool = std::sync::atomic::AtomicBool::new(false);
/// Install the null logger at Trace level (argument expressions of every log call get evaluated).
pub fn install_logger() {
    let _ = log::set_logger(&LOGGER);
    log::set_max_level(log::LevelFilter::Trace);
}
/// additionally format every record on this thread
pub fn format_logs(on: bool) {
    FORMAT_LOGS.with(|f| f.set(on));
}

// ------------------------------------------------------------------------------------------------
// filter configurations used by the byte-level oracles

pub fn filter_by_index(i: u8) -> Option<ProcessedDltFilterConfig> {
    let s = |v: &[&str]| Some(v.iter().map(|x| x.to_string()).collect::<Vec<_>>());
    let cfg = match i % 8 {
        0 => return None,
        // drops every message that has an extended header
        1 => DltFilterConfig {
            min_log_level: None,
            app_ids: s(&[]),
            ecu_ids: None,
            context_ids: None,
            app_id_count: 1,
            context_id_count: 0,
        },
        // keeps everything
        2 => DltFilterConfig {
            min_log_level: Some(6),
            app_ids: None,
            ecu_ids: None,
            context_ids: None,
            app_id_count: 0,
            context_id_count: 0,
        },
        3 => DltFilterConfig {
            min_log_level: Some(3),
            app_ids: None,
            ecu_ids: None,
            context_ids: None,
            app_id_count: 0,
            context_id_count: 0,
        },
        4 => DltFilterConfig {
            min_log_level: None,
            app_ids: s(&["APP", "A", ""]),
            ecu_ids: s(&["ECU"]),
            context_ids: None,
            app_id_count: 3,
            context_id_count: 0,
        },
        5 => DltFilterConfig {
            min_log_level: Some(1),
            app_ids: None,
            ecu_ids: s(&[]),
            context_ids: s(&["CTX", "CON"]),
            app_id_count: 0,
            context_id_count: 5,
        },
        6 => DltFilterConfig {
            min_log_level: Some(200),
            app_ids: None,
            ecu_ids: None,
            context_ids: s(&[]),
            app_id_count: 0,
            context_id_count: 1,
        },
        _ => DltFilterConfig {
            min_log_level: Some(5),
            app_ids: s(&["APP"]),
            ecu_ids: None,
            context_ids: s(&["CON"]),
            app_id_count: 1,
            context_id_count: 1,
        },
    };
    Some(ProcessedDltFilterConfig::from(cfg))
}

fn inside(rest: &[u8], buf: &[u8]) -> bool {
    let (r0, b0) = (rest.as_ptr() as usize, buf.as_ptr() as usize);
    rest.is_empty() || (r0 >= b0 && r0 + rest.len() <= b0 + buf.len())
}
fn is_suffix(rest: &[u8], buf: &[u8]) -> bool {
    if rest.is_empty() {
        return true; // the empty slice may be a fresh `&[]`
    }
    rest.as_ptr() as usize + rest.len() == buf.as_ptr() as usize + buf.len()
        && rest.len() <= buf.len()
}

fn err_class(e: &DltParseError) -> &'static str {
    match e {
        DltParseError::IncompleteParse { .. } => "incomplete",
        DltParseError::ParsingHickup(_) => "hickup",
        DltParseError::Unrecoverable(_) => "unrecoverable",
    }
}

// ------------------------------------------------------------------------------------------------
// C02 decode side

pub fn c02_decode(buf: &[u8], storage: bool) -> CheckResult {
    let rv = refcodec::decode(buf, storage);
    let cv = guard(|| dlt_message(buf, None, storage).map(|(rest, m)| (rest.len(), m))).map_err(
        |p| {
            Violation::from_panic(
                &format!("dlt_message(storage={}) on {}", storage, hex_short(buf)),
                &p,
            )
        },
    )?;
    let bad = |what: &str, detail: String| -> Violation {
        viol!(
            format!("decode:{}", what),
            "parser and reference decoder disagree ({}), storage={}: {}\n  bytes={}",
            what,
            storage,
            detail,
            hex_short(buf)
        )
    };
    let mut pass = Pass::new(false);
    match (&rv, &cv) {
        (Verdict::Msg(rm, consumed), Ok((rest, ParsedMessage::Item(cm)))) => {
            let fc = from_crate(cm);
            if let Some(why) = fc.inconsistent {
                return Err(bad("message-not-representable", why));
            }
            let mut c = fc.msg;
            let mut r = (**rm).clone();
            match (&fc.net_slices, r.is_network_trace()) {
                (Some(net), true) => {
                    let want: Vec<Vec<u8>> = match &r.payload {
                        RPayload::Verbose(a) => a
                            .iter()
                            .filter_map(|x| {
                                if let RVal::Raw(d) = &x.val {
                                    Some(d.clone())
                                } else {
                                    None
                                }
                            })
                            .collect(),
                        _ => vec![],
                    };
                    if *net != want {
                        return Err(bad(
                            "network-trace-slices",
                            format!(
                                "crate slices {:?} != reference raw arguments {:?}",
                                short_dbg(net),
                                short_dbg(&want)
                            ),
                        ));
                    }
                    r.payload = RPayload::Verbose(vec![]);
                    c.payload = RPayload::Verbose(vec![]);
                }
                (None, false) => {}
                (a, b) => {
                    return Err(bad(
                        "network-trace-kind",
                        format!(
                            "crate network-trace payload: {}, reference says network trace: {}",
                            a.is_some(),
                            b
                        ),
                    ))
                }
            }
            if c != r {
                return Err(bad(
                    "field-values",
                    format!("crate {} != reference {}", short_dbg(&c), short_dbg(&r)),
                ));
            }
            if buf.len() - rest != *consumed {
                return Err(bad(
                    "consumed",
                    format!(
                        "crate consumed {} bytes, reference {}",
                        buf.len() - rest,
                        consumed
                    ),
                ));
            }
            let nonempty = r.len as usize > r.headers_len();
            pass.nontrivial = buf.len() >= 4 && nonempty;
            pass = pass.class("verdict:message").class(rm.payload_kind());
        }
        (
            Verdict::Incomplete,
            Ok((
                _,
                ParsedMessage::Item(_) | ParsedMessage::Invalid | ParsedMessage::FilteredOut(_),
            )),
        ) => {
            return Err(bad("reference-incomplete-crate-ok", short_dbg(&cv)));
        }
        (Verdict::Incomplete, Err(DltParseError::IncompleteParse { .. })) => {
            pass = pass.class("verdict:incomplete")
        }
        (Verdict::IncompleteOrReject(_), Err(_))
        | (Verdict::IncompleteOrReject(_), Ok((_, ParsedMessage::Invalid))) => {
            pass = pass.class("verdict:incomplete-or-reject")
        }
        (
            Verdict::Reject(_),
            Err(DltParseError::ParsingHickup(_) | DltParseError::Unrecoverable(_)),
        )
        | (Verdict::Reject(_), Ok((_, ParsedMessage::Invalid))) => {
            pass.nontrivial = buf.len() >= 4;
            pass = pass.class("verdict:reject");
        }
        (r, c) => {
            let rc = match r {
                Verdict::Msg(..) => "message",
                Verdict::Incomplete => "incomplete",
                Verdict::Reject(_) => "reject",
                Verdict::IncompleteOrReject(_) => "incomplete-or-reject",
            };
            let cc = match c {
                Ok((_, ParsedMessage::Item(_))) => "message",
                Ok((_, ParsedMessage::Invalid)) => "invalid",
                Ok((_, ParsedMessage::FilteredOut(_))) => "filtered",
                Err(e) => err_class(e),
            };
            return Err(bad(
                &format!("ref-{}-vs-crate-{}", rc, cc),
                format!("reference {} / crate {}", short_dbg(r), short_dbg(c)),
            ));
        }
    }
    Ok(pass.class(if storage {
        "storage-mode"
    } else {
        "plain-mode"
    }))
}

// ------------------------------------------------------------------------------------------------
// C03: nothing panics, results are usable

/// every use the property lists of a returned message
pub fn use_message(m: &Message, ctx: &str) -> Result<(), Violation> {
    let r = guard(|| {
        let b = m.as_bytes();
        let l = m.byte_len();
        let mut invalid = None;
        if let PayloadContent::Verbose(args) = &m.payload {
            for (i, a) in args.iter().enumerate() {
                let _ = a.len();
                let _ = a.as_bytes::<BigEndian>();
                let _ = a.as_bytes::<LittleEndian>();
                if !a.valid() {
                    invalid = Some(i);
                }
            }
        }
        (b.len(), l, invalid)
    })
    .map_err(|p| {
        Violation::from_panic(
            &format!("using the message returned by {} ({})", ctx, short_dbg(m)),
            &p,
        )
    })?;
    if let Some(i) = r.2 {
        return Err(viol!(
            "returned-argument-invalid",
            "{} returned a message whose argument {} fails Argument::valid(): {}",
            ctx,
            i,
            short_dbg(m)
        ));
    }
    Ok(())
}

pub const STRING_SIZES: [usize; 14] = [
    0,
    1,
    2,
    3,
    4,
    5,
    6,
    7,
    8,
    255,
    256,
    65535,
    70000,
    usize::MAX,
];

pub fn c03(
    buf: &[u8],
    filter_idx: u8,
    size_sel: u8,
    types: &[dlt_core::dlt::TypeInfo],
    big_endian: bool,
) -> CheckResult {
    let mut past_headers = false;
    let mut pass = Pass::new(false);
    let filter = filter_by_index(if filter_idx % 8 == 0 { 1 } else { filter_idx });
    for storage in [false, true] {
        for f in [None, filter.as_ref()] {
            let what = format!("dlt_message(storage={}, filter={})", storage, f.is_some());
            let res = guard(|| match dlt_message(buf, f, storage) {
                Ok((rest, pm)) => {
                    if !inside(rest, buf) {
                        return Err("remainder is not inside the input".to_string());
                    }
                    Ok(Some(pm))
                }
                Err(DltParseError::IncompleteParse { .. }) => Ok(None),
                Err(_) => Ok(Some(ParsedMessage::Invalid)),
            })
            .map_err(|p| Violation::from_panic(&format!("{} on {}", what, hex_short(buf)), &p))?
            .map_err(|e| {
                viol!(
                    "remainder-outside-input",
                    "{}: {} ({})",
                    what,
                    e,
                    hex_short(buf)
                )
            })?;
            if let Some(pm) = res {
                past_headers = true;
                if let ParsedMessage::Item(m) = &pm {
                    use_message(m, &what)?;
                    pass.classes.push("returned-message");
                }
            }
        }
    }
    let r =
        guard(|| dlt_consume_msg(buf).map(|(rest, c)| (inside(rest, buf), c))).map_err(|p| {
            Violation::from_panic(&format!("dlt_consume_msg on {}", hex_short(buf)), &p)
        })?;
    if let Ok((false, _)) = r {
        return Err(viol!(
            "remainder-outside-input",
            "dlt_consume_msg returned a remainder outside the input ({})",
            hex_short(buf)
        ));
    }
    if matches!(r, Ok((_, Some(_)))) {
        pass.classes.push("consumed-message");
    }
    let r = guard(|| skip_storage_header(buf).map(|(rest, n)| (inside(rest, buf), rest.len(), n)))
        .map_err(|p| {
            Violation::from_panic(&format!("skip_storage_header on {}", hex_short(buf)), &p)
        })?;
    if let Ok((ok, rest_len, n)) = r {
        if !ok || n != 16 || rest_len + 16 != buf.len() {
            return Err(viol!(
                "skip-storage-header",
                "skip_storage_header returned ({} bytes left, {}) for a {}-byte input",
                rest_len,
                n,
                buf.len()
            ));
        }
    }
    let r = guard(|| {
        forward_to_next_storage_header(buf).map(|(n, rest)| (n, inside(rest, buf), rest.len()))
    })
    .map_err(|p| {
        Violation::from_panic(
            &format!("forward_to_next_storage_header on {}", hex_short(buf)),
            &p,
        )
    })?;
    if let Some((n, ok, rest_len)) = r {
        if !ok || n as usize + rest_len != buf.len() {
            return Err(viol!(
                "forward-remainder",
                "forward_to_next_storage_header returned ({}, {} bytes) for a {}-byte input",
                n,
                rest_len,
                buf.len()
            ));
        }
    }
    let size = STRING_SIZES[size_sel as usize % STRING_SIZES.len()];
    for size in [size, buf.len(), buf.len() / 2] {
        let r = guard(|| {
            dlt_zero_terminated_string(buf, size).map(|(rest, s)| {
                (
                    inside(rest, buf),
                    std::str::from_utf8(s.as_bytes()).is_ok() && inside(s.as_bytes(), buf),
                )
            })
        })
        .map_err(|p| {
            Violation::from_panic(
                &format!(
                    "dlt_zero_terminated_string(size={}) on {}",
                    size,
                    hex_short(buf)
                ),
                &p,
            )
        })?;
        if let Ok((rest_ok, str_ok)) = r {
            if !rest_ok || !str_ok {
                return Err(viol!("string-result", "dlt_zero_terminated_string(size={}) returned remainder inside={} / valid str={} ({})", size, rest_ok, str_ok, hex_short(buf)));
            }
        }
    }
    let e = if big_endian {
        Endianness::Big
    } else {
        Endianness::Little
    };
    let r = guard(|| construct_arguments(e, types, buf)).map_err(|p| {
        Violation::from_panic(
            &format!(
                "construct_arguments({:?}, {:?}) on {}",
                e,
                types,
                hex_short(buf)
            ),
            &p,
        )
    })?;
    if r.is_ok() {
        // (the statement's "can be re-serialised and measured" clause is about returned *messages*; an argument list
        // built by construct_arguments from a 65535-byte string cannot be written as a verbose argument at all)
        pass.classes.push("constructed-arguments");
    }
    pass.nontrivial = past_headers;
    pass.classes.sort();
    pass.classes.dedup();
    Ok(pass.class_if(buf.len() > 65551, "input>64KiB"))
}

// ------------------------------------------------------------------------------------------------
// C04: consumption

/// (offset of the message start, declared LEN, HTYP) read from the raw bytes only
fn declared(buf: &[u8], storage: bool) -> Option<(usize, usize, u8)> {
    let start = if storage {
        refcodec::find_pattern(buf)? + 16
    } else {
        0
    };
    if buf.len() < start + 4 {
        return None;
    }
    Some((
        start,
        u16::from_be_bytes([buf[start + 2], buf[start + 3]]) as usize,
        buf[start],
    ))
}

pub fn c04(
    buf: &[u8],
    storage: bool,
    extra_filter: Option<&ProcessedDltFilterConfig>,
) -> CheckResult {
    let mut pass = Pass::new(false);
    let filters: Vec<Option<ProcessedDltFilterConfig>> = (0..8).map(filter_by_index).collect();
    let mut all: Vec<Option<&ProcessedDltFilterConfig>> =
        filters.iter().map(|f| f.as_ref()).collect();
    if extra_filter.is_some() {
        all.push(extra_filter);
    }
    let mut first_rest: Option<(usize, usize)> = None; // (filter index, rest len)
    for (fi, f) in all.iter().enumerate() {
        let res = guard(|| {
            dlt_message(buf, *f, storage).map(|(rest, pm)| (is_suffix(rest, buf), rest.len(), pm))
        })
        .map_err(|p| {
            Violation::from_panic(
                &format!(
                    "dlt_message(storage={}, filter #{}) on {}",
                    storage,
                    fi,
                    hex_short(buf)
                ),
                &p,
            )
        })?;
        let Ok((suffix, rest_len, pm)) = res else {
            continue;
        };
        let kind = match &pm {
            ParsedMessage::Item(_) => "item",
            ParsedMessage::FilteredOut(_) => "filtered",
            ParsedMessage::Invalid => "invalid",
        };
        if !suffix || rest_len > buf.len() {
            return Err(viol!(format!("consume:{}:not-a-suffix", kind), "dlt_message(storage={}, filter #{}) returned a remainder that is not a suffix of the input ({})", storage, fi, hex_short(buf)));
        }
        let consumed = buf.len() - rest_len;
        let Some((start, len, htyp)) = declared(buf, storage) else {
            return Err(viol!(format!("consume:{}:ok-without-header", kind), "dlt_message returned Ok({}) although the input has no complete standard header ({})", kind, hex_short(buf)));
        };
        if consumed != start + len || consumed == 0 {
            return Err(viol!(
                format!("consume:{}:wrong-remainder", kind),
                "dlt_message(storage={}, filter #{}) -> {}: consumed {} bytes, but the message starts at {} and declares length {} (expected {}); bytes={}",
                storage, fi, kind, consumed, start, len, start + len, hex_short(buf)
            ));
        }
        if let ParsedMessage::FilteredOut(n) = &pm {
            let want = len as i64 - headers_len(htyp) as i64;
            if *n as i64 != want {
                return Err(viol!(
                    "consume:filtered:payload-count",
                    "FilteredOut({}) but the declared payload has {} bytes ({})",
                    n,
                    want,
                    hex_short(buf)
                ));
            }
            pass.classes.push("filtered-out");
            pass.nontrivial = true;
        }
        match first_rest {
            None => first_rest = Some((fi, rest_len)),
            Some((f0, r0)) => {
                if r0 != rest_len {
                    return Err(viol!("consume:filter-changes-remainder", "filter #{} leaves {} bytes, filter #{} leaves {} bytes of the same input ({})", f0, r0, fi, rest_len, hex_short(buf)));
                }
            }
        }
        if let ParsedMessage::Item(m) = &pm {
            // under-/over-filled payload: declared payload length differs from what the arguments encode to
            let reser = guard(|| m.as_bytes().len()).unwrap_or(0);
            let s = if storage { 16 } else { 0 };
            if reser != s + len {
                pass.nontrivial = true;
                pass.classes.push("payload-not-exact-fit");
            }
        }
        if start > if storage { 16 } else { 0 } {
            pass.nontrivial = true;
            pass.classes.push("junk-skipped");
        }
        pass.classes.push("ok");
    }
    if storage {
        let r =
            guard(|| dlt_consume_msg(buf).map(|(rest, c)| (is_suffix(rest, buf), rest.len(), c)))
                .map_err(|p| {
                Violation::from_panic(&format!("dlt_consume_msg on {}", hex_short(buf)), &p)
            })?;
        match r {
            Ok((_, _, None)) => {
                if !buf.is_empty() {
                    return Err(viol!(
                        "consume-msg:none-on-nonempty",
                        "dlt_consume_msg reported no message on a non-empty input ({})",
                        hex_short(buf)
                    ));
                }
            }
            Ok((suffix, rest_len, Some(c))) => {
                let len = if buf.len() >= 20 {
                    u16::from_be_bytes([buf[18], buf[19]]) as usize
                } else {
                    usize::MAX
                };
                if !suffix || c as usize != 16 + len || buf.len() - rest_len != c as usize || c == 0
                {
                    return Err(viol!("consume-msg:wrong-count", "dlt_consume_msg consumed {} (remainder {} of {} bytes), declared length {} ({})", c, rest_len, buf.len(), len, hex_short(buf)));
                }
                pass.classes.push("consume-msg-ok");
            }
            Err(_) => {}
        }
    }
    // repeated parsing terminates and makes progress
    let bound = buf.len() / 4 + 2;
    let mut input = buf;
    let mut steps = 0usize;
    loop {
        let r = guard(|| dlt_message(input, None, storage).map(|(rest, _)| rest.len()))
            .map_err(|p| Violation::from_panic("dlt_message while iterating", &p))?;
        match r {
            Ok(rest_len) if rest_len < input.len() => {
                input = &input[input.len() - rest_len..];
                steps += 1;
                if steps > bound {
                    return Err(viol!(
                        "consume:iteration-bound",
                        "iterating dlt_message over {} bytes took more than {} steps",
                        buf.len(),
                        bound
                    ));
                }
            }
            Ok(_) => {
                return Err(viol!(
                    "consume:no-progress",
                    "dlt_message returned Ok without consuming anything ({})",
                    hex_short(input)
                ))
            }
            Err(_) => break,
        }
    }
    if steps >= 2 {
        pass.classes.push("iterated>=2");
    }
    pass.classes.sort();
    pass.classes.dedup();
    Ok(pass.class(if storage {
        "storage-mode"
    } else {
        "plain-mode"
    }))
}

// ------------------------------------------------------------------------------------------------
// C16: parse -> write -> parse is a fixpoint

pub fn c16(buf: &[u8], storage: bool) -> CheckResult {
    let r = guard(|| dlt_message(buf, None, storage).map(|(rest, pm)| (rest.len(), pm)))
        .map_err(|p| Violation::from_panic(&format!("dlt_message on {}", hex_short(buf)), &p))?;
    let Ok((rest_len, ParsedMessage::Item(m))) = r else {
        return Ok(Pass::new(false).class("no-message"));
    };
    let b2 = guard(|| m.as_bytes()).map_err(|p| {
        Violation::from_panic(&format!("as_bytes of parsed message {}", short_dbg(&m)), &p)
    })?;
    let s = if storage { 16 } else { 0 };
    // the premise is read off the re-serialised bytes themselves: "has the length its own header declares" = the
    // 16-bit length field the writer emitted equals the number of bytes it emitted (on a writer that copies the
    // message's declared length into that field this is the same as comparing with m.header.overall_length())
    if b2.len() < s + 4 {
        return Ok(Pass::new(false).class("reserialisation-has-other-length"));
    }
    let declared = u16::from_be_bytes([b2[s + 2], b2[s + 3]]) as usize;
    if b2.len() != s + declared {
        return Ok(Pass::new(false).class("reserialisation-has-other-length"));
    }
    let kind = match &m.payload {
        PayloadContent::Verbose(_) => "verbose",
        PayloadContent::NonVerbose(..) => "nonverbose",
        PayloadContent::ControlMsg(..) => "control",
        PayloadContent::NetworkTrace(_) => "nwtrace",
    };
    let r2 = guard(|| dlt_message(&b2, None, storage).map(|(rest, pm)| (rest.len(), pm))).map_err(
        |p| {
            Violation::from_panic(
                &format!("dlt_message on re-serialised {}", hex_short(&b2)),
                &p,
            )
        },
    )?;
    match r2 {
        Ok((0, ParsedMessage::Item(m2))) => {
            msg_eq_bits(&m, &m2).map_err(|d| viol!(format!("reserialise:{}:differs", kind), "re-serialised message parses to a different message: {}\n  input={}\n  rewritten={}", d, hex_short(buf), hex_short(&b2)))?;
            let b3 = guard(|| m2.as_bytes()).map_err(|p| Violation::from_panic("as_bytes of re-parsed message", &p))?;
            if b3 != b2 {
                return Err(viol!(format!("reserialise:{}:bytes-unstable", kind), "serialising again gives different bytes: {} vs {}", hex_short(&b2), hex_short(&b3)));
            }
        }
        other => {
            return Err(viol!(
                format!("reserialise:{}:does-not-parse", kind),
                "re-serialisation of a parsed message does not parse back to one message with nothing left: {}\n  message={}\n  input={}\n  rewritten={}",
                short_dbg(&other), short_dbg(&m), hex_short(buf), hex_short(&b2)
            ))
        }
    }
    let consumed = &buf[..buf.len() - rest_len];
    // the parser skipped junk in front of the storage header: compare from the pattern on
    let start = if storage {
        refcodec::find_pattern(buf).unwrap_or(0)
    } else {
        0
    };
    let normalised = consumed[start.min(consumed.len())..] != b2[..];
    Ok(Pass::new(normalised)
        .class(kind)
        .class_if(normalised, "parser-normalised-input")
        .class_if(!normalised, "canonical-input"))
}

// ------------------------------------------------------------------------------------------------
// C13 on arbitrary payloads: reference decode of packed fields

/// decode `data` along `types` as the statement prescribes; `None` = must be refused
pub fn c13_reference(types: &[RType], be: bool, data: &[u8]) -> Option<Vec<RVal>> {
    let mut c = refcodec::Cur { b: data, p: 0, be };
    let mut out = vec![];
    for t in types {
        out.push(match t.kind {
            RKind::Bool => RVal::Bool(c.u8()?),
            RKind::Sint(b) => RVal::I(c.sint(b)?),
            RKind::Uint(b) => RVal::U(c.uint(b)?),
            RKind::Float(32) => RVal::F32(c.u32()?),
            RKind::Float(_) => RVal::F64(c.uint(64)? as u64),
            RKind::Str => {
                let n = c.u16()? as usize;
                RVal::Str(String::from_utf8(c.take(n)?.to_vec()).ok()?)
            }
            RKind::Raw => {
                let n = c.u16()? as usize;
                RVal::Raw(c.take(n)?.to_vec())
            }
            RKind::SintFx(_) | RKind::UintFx(_) => return None,
        });
    }
    Some(out)
}

/// construct_arguments on an arbitrary payload must agree with the reference decode
pub fn c13_decode(types: &[RType], be: bool, data: &[u8]) -> CheckResult {
    let ctypes: Vec<_> = types.iter().map(type_to_crate).collect();
    let e = if be {
        Endianness::Big
    } else {
        Endianness::Little
    };
    let got = guard(|| construct_arguments(e, &ctypes, data)).map_err(|p| {
        Violation::from_panic(
            &format!(
                "construct_arguments({:?}, {:?}) on {}",
                e,
                types,
                hex_short(data)
            ),
            &p,
        )
    })?;
    if types
        .iter()
        .any(|t| matches!(t.kind, RKind::SintFx(_) | RKind::UintFx(_)))
    {
        return Ok(Pass::new(false).class("fixed-point:no-panic-only"));
    }
    let want = c13_reference(types, be, data);
    match (got, want) {
        (Err(_), None) => Ok(Pass::new(!types.is_empty()).class("refused")),
        (Ok(args), Some(vals)) => {
            if args.len() != vals.len() {
                return Err(viol!("construct:count", "{} arguments for {} types", args.len(), vals.len()));
            }
            for (i, (a, v)) in args.iter().zip(vals.iter()).enumerate() {
                let got = value_from_crate(&a.value);
                let bits_ok = match types[i].kind {
                    RKind::Sint(b) | RKind::Uint(b) | RKind::Float(b) => value_bits(&a.value) == b,
                    _ => true,
                };
                if got != *v || !bits_ok || a.type_info != ctypes[i] || a.name.is_some() || a.unit.is_some() {
                    return Err(viol!(
                        format!("construct:{:?}:{}:value", types[i].kind, if be { "be" } else { "le" }),
                        "argument {} of types {:?} ({}) decoded to {:?} (type {:?}), the packed field is {:?}; payload={}",
                        i, types, if be { "big endian" } else { "little endian" }, a.value, a.type_info, v, hex_short(data)
                    ));
                }
            }
            Ok(Pass::new(types.len() >= 2).class("decoded"))
        }
        (Ok(a), None) => Err(viol!("construct:accepted-bad-payload", "construct_arguments accepted a payload that is too short or holds a non-UTF-8 string: {} arguments for types {:?}; payload={}", a.len(), types, hex_short(data))),
        (Err(e), Some(_)) => Err(viol!("construct:refused-good-payload", "construct_arguments refused a decodable payload: {:?}; types {:?}; payload={}", e, types, hex_short(data))),
    }
}

// ------------------------------------------------------------------------------------------------
// entry points shared by the libFuzzer targets and by the triage of their findings

pub const SIGNAL_KINDS: [RKind; 15] = [
    RKind::Bool,
    RKind::Sint(8),
    RKind::Sint(16),
    RKind::Sint(32),
    RKind::Sint(64),
    RKind::Sint(128),
    RKind::Uint(8),
    RKind::Uint(16),
    RKind::Uint(32),
    RKind::Uint(64),
    RKind::Uint(128),
    RKind::Float(32),
    RKind::Float(64),
    RKind::Str,
    RKind::Raw,
];

/// target `bytes`: first byte = mode bits (bit0 storage, bits1-3 filter index, bit4 format logs), rest = buffer
pub fn fuzz_bytes(prop: &str, data: &[u8]) -> CheckResult {
    let Some((&mode, buf)) = data.split_first() else {
        return Ok(Pass::new(false));
    };
    let storage = mode & 1 != 0;
    match prop {
        "C02" => c02_decode(buf, storage),
        "C04" => {
            let f = filter_by_index((mode >> 1) & 7);
            c04(buf, storage, f.as_ref())
        }
        "C16" => c16(buf, storage),
        _ => {
            install_logger();
            format_logs(mode & 0x10 != 0 && buf.len() < 2048);
            let types: Vec<dlt_core::dlt::TypeInfo> = buf
                .iter()
                .take((mode >> 5) as usize)
                .map(|b| {
                    type_to_crate(&RType {
                        kind: SIGNAL_KINDS[*b as usize % 15],
                        vari: false,
                        trai: false,
                        scod: 0,
                    })
                })
                .collect();
            let r = c03(
                buf,
                (mode >> 1) & 7,
                buf.len() as u8,
                &types,
                mode & 0x80 != 0,
            );
            format_logs(false);
            r
        }
    }
}

/// target `args`: byte0 = bit0 byte order, bits1-4 number of types; then one kind selector per type; rest = payload
pub fn fuzz_args(data: &[u8]) -> CheckResult {
    let Some((&h, rest)) = data.split_first() else {
        return Ok(Pass::new(false));
    };
    let n = ((h >> 1) & 15) as usize;
    if rest.len() < n {
        return Ok(Pass::new(false));
    }
    let types: Vec<RType> = rest[..n]
        .iter()
        .map(|b| RType {
            kind: SIGNAL_KINDS[(*b & 15) as usize % 15],
            vari: b & 0x10 != 0,
            trai: b & 0x20 != 0,
            scod: b >> 6,
        })
        .collect();
    c13_decode(&types, h & 1 != 0, &rest[n..])
}

/// target `fibex` (in-process part): load the document, no panic; hangs are found by libFuzzer's
/// timeout and re-judged by the CPU-budget evaluator before anything is reported
pub fn fuzz_fibex(data: &[u8], path: &std::path::Path) -> CheckResult {
    if std::fs::write(path, data).is_err() {
        return Ok(Pass::new(false));
    }
    let p = path.to_string_lossy().to_string();
    let r = guard(|| {
        dlt_core::fibex::gather_fibex_data(dlt_core::fibex::FibexConfig {
            fibex_file_paths: vec![p],
        })
    })
    .map_err(|p| Violation::from_panic("gather_fibex_data", &p))?;
    Ok(Pass::new(true).class(if r.is_some() {
        "verdict:model"
    } else {
        "verdict:refused"
    }))
}

/// Byte-level delta debugging under a fixed oracle: keep shrinking while the same signature is reported.
pub fn minimise(data: &[u8], fails: &dyn Fn(&[u8]) -> Option<String>) -> Vec<u8> {
    let Some(sig) = fails(data) else {
        return data.to_vec();
    };
    let mut cur = data.to_vec();
    let mut chunk = (cur.len() / 2).max(1);
    let mut budget = 20_000usize;
    while chunk >= 1 && budget > 0 {
        let mut i = 1.min(cur.len()); // never drop the mode byte first
        let mut progressed = false;
        while i < cur.len() && budget > 0 {
            let end = (i + chunk).min(cur.len());
            let mut cand = cur[..i].to_vec();
            cand.extend_from_slice(&cur[end..]);
            budget -= 1;
            if fails(&cand).as_deref() == Some(sig.as_str()) {
                cur = cand;
                progressed = true;
            } else {
                i += chunk;
            }
        }
        if !progressed {
            if chunk == 1 {
                break;
            }
            chunk /= 2;
        }
    }
    // canonicalise bytes towards zero
    for i in 1..cur.len() {
        if budget == 0 {
            break;
        }
        if cur[i] != 0 {
            let old = cur[i];
            cur[i] = 0;
            budget -= 1;
            if fails(&cur).as_deref() != Some(sig.as_str()) {
                cur[i] = old;
            }
        }
    }
    cur
}
