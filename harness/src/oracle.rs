//! Byte-level oracles shared by the proptest driver and the libFuzzer targets:
//! C02 (decode differential), C03 (no panic + post-conditions), C04 (consumption), C16 (re-serialisation).
use crate::model::*;
use crate::refcodec::{self, Verdict};
use crate::util::{guard, hex_short};
use crate::verdict::*;
use crate::viol;
use byteorder::{BigEndian, LittleEndian};
use dlt_core::dlt::{Endianness, Message, PayloadContent};
use dlt_core::filtering::{DltFilterConfig, ProcessedDltFilterConfig};
use dlt_core::parse::*;
use std::cell::Cell;

// ------------------------------------------------------------------------------------------------
// logger: forces evaluation of the `trace!` arguments inside dlt-core (they slice the input)

thread_local! {
    static FORMAT_LOGS: Cell<bool> = const { Cell::new(false) };
}
struct NullLogger;
impl log::Log for NullLogger {
    fn enabled(&self, _: &log::Metadata) -> bool {
        true
    }
    fn log(&self, record: &log::Record) {
        if FORMAT_LOGS.with(|f| f.get()) {
            let s = format!("{}", record.args());
            std::hint::black_box(s);
        }
    }
    fn flush(&self) {}
}
static LOGGER: NullLogger = NullLogger;
/// Install the null logger at Trace level (argument expressions of every log call get evaluated).
pub fn install_logger() {
    let _ = log::set_logger(&LOGGER);
    log::set_max_level(log::LevelFilter::Trace);
}
/// additionally format every record on this thread
pub fn format_logs(on: bool) {
    FORMAT_LOGS.with(|f| f.set(on));
}

// ------------------------------------------------------------------------------------------------
// filter configurations used by the byte-level oracles

pub fn filter_by_index(i: u8) -> Option<ProcessedDltFilterConfig> {
    let s = |v: &[&str]| Some(v.iter().map(|x| x.to_string()).collect::<Vec<_>>());
    let cfg = match i % 8 {
        0 => return None,
        // drops every message that has an extended header
        1 => DltFilterConfig { min_log_level: None, app_ids: s(&[]), ecu_ids: None, context_ids: None, app_id_count: 1, context_id_count: 0 },
        // keeps everything
        2 => DltFilterConfig { min_log_level: Some(6), app_ids: None, ecu_ids: None, context_ids: None, app_id_count: 0, context_id_count: 0 },
        3 => DltFilterConfig { min_log_level: Some(3), app_ids: None, ecu_ids: None, context_ids: None, app_id_count: 0, context_id_count: 0 },
        4 => DltFilterConfig { min_log_level: None, app_ids: s(&["APP", "A", ""]), ecu_ids: s(&["ECU"]), context_ids: None, app_id_count: 3, context_id_count: 0 },
        5 => DltFilterConfig { min_log_level: Some(1), app_ids: None, ecu_ids: s(&[]), context_ids: s(&["CTX", "CON"]), app_id_count: 0, context_id_count: 5 },
        6 => DltFilterConfig { min_log_level: Some(200), app_ids: None, ecu_ids: None, context_ids: s(&[]), app_id_count: 0, context_id_count: 1 },
        _ => DltFilterConfig { min_log_level: Some(5), app_ids: s(&["APP"]), ecu_ids: None, context_ids: s(&["CON"]), app_id_count: 1, context_id_count: 1 },
    };
    Some(ProcessedDltFilterConfig::from(cfg))
}

fn inside(rest: &[u8], buf: &[u8]) -> bool {
    let (r0, b0) = (rest.as_ptr() as usize, buf.as_ptr() as usize);
    rest.is_empty() || (r0 >= b0 && r0 + rest.len() <= b0 + buf.len())
}
fn is_suffix(rest: &[u8], buf: &[u8]) -> bool {
    if rest.is_empty() {
        return true; // the empty slice may be a fresh `&[]`
    }
    rest.as_ptr() as usize + rest.len() == buf.as_ptr() as usize + buf.len() && rest.len() <= buf.len()
}

fn err_class(e: &DltParseError) -> &'static str {
    match e {
        DltParseError::IncompleteParse { .. } => "incomplete",
        DltParseError::ParsingHickup(_) => "hickup",
        DltParseError::Unrecoverable(_) => "unrecoverable",
    }
}

// ------------------------------------------------------------------------------------------------
// C02 decode side

pub fn c02_decode(buf: &[u8], storage: bool) -> CheckResult {
    let rv = refcodec::decode(buf, storage);
    let cv = guard(|| dlt_message(buf, None, storage).map(|(rest, m)| (rest.len(), m)))
        .map_err(|p| Violation::from_panic(&format!("dlt_message(storage={}) on {}", storage, hex_short(buf)), &p))?;
    let bad = |what: &str, detail: String| -> Violation {
        viol!(format!("decode:{}", what), "parser and reference decoder disagree ({}), storage={}: {}\n  bytes={}", what, storage, detail, hex_short(buf))
    };
    let mut pass = Pass::new(false);
    match (&rv, &cv) {
        (Verdict::Msg(rm, consumed), Ok((rest, ParsedMessage::Item(cm)))) => {
            let fc = from_crate(cm);
            if let Some(why) = fc.inconsistent {
                return Err(bad("message-not-representable", why));
            }
            let mut c = fc.msg;
            let mut r = (**rm).clone();
            match (&fc.net_slices, r.is_network_trace()) {
                (Some(net), true) => {
                    let want: Vec<Vec<u8>> = match &r.payload {
                        RPayload::Verbose(a) => a.iter().filter_map(|x| if let RVal::Raw(d) = &x.val { Some(d.clone()) } else { None }).collect(),
                        _ => vec![],
                    };
                    if *net != want {
                        return Err(bad("network-trace-slices", format!("crate slices {:?} != reference raw arguments {:?}", short_dbg(net), short_dbg(&want))));
                    }
                    r.payload = RPayload::Verbose(vec![]);
                    c.payload = RPayload::Verbose(vec![]);
                }
                (None, false) => {}
                (a, b) => return Err(bad("network-trace-kind", format!("crate network-trace payload: {}, reference says network trace: {}", a.is_some(), b))),
            }
            if c != r {
                return Err(bad("field-values", format!("crate {} != reference {}", short_dbg(&c), short_dbg(&r))));
            }
            if buf.len() - rest != *consumed {
                return Err(bad("consumed", format!("crate consumed {} bytes, reference {}", buf.len() - rest, consumed)));
            }
            let nonempty = r.len as usize > r.headers_len();
            pass.nontrivial = buf.len() >= 4 && nonempty;
            pass = pass.class("verdict:message").class(rm.payload_kind());
        }
        (Verdict::Incomplete, Ok((_, ParsedMessage::Item(_) | ParsedMessage::Invalid | ParsedMessage::FilteredOut(_)))) => {
            return Err(bad("reference-incomplete-crate-ok", short_dbg(&cv)));
        }
        (Verdict::Incomplete, Err(DltParseError::IncompleteParse { .. })) => pass = pass.class("verdict:incomplete"),
        (Verdict::IncompleteOrReject(_), Err(_)) | (Verdict::IncompleteOrReject(_), Ok((_, ParsedMessage::Invalid))) => pass = pass.class("verdict:incomplete-or-reject"),
        (Verdict::Reject(_), Err(DltParseError::ParsingHickup(_) | DltParseError::Unrecoverable(_))) | (Verdict::Reject(_), Ok((_, ParsedMessage::Invalid))) => {
            pass.nontrivial = buf.len() >= 4;
            pass = pass.class("verdict:reject");
        }
        (r, c) => {
            let rc = match r {
                Verdict::Msg(..) => "message",
                Verdict::Incomplete => "incomplete",
                Verdict::Reject(_) => "reject",
                Verdict::IncompleteOrReject(_) => "incomplete-or-reject",
            };
            let cc = match c {
                Ok((_, ParsedMessage::Item(_))) => "message",
                Ok((_, ParsedMessage::Invalid)) => "invalid",
                Ok((_, ParsedMessage::FilteredOut(_))) => "filtered",
                Err(e) => err_class(e),
            };
            return Err(bad(&format!("ref-{}-vs-crate-{}", rc, cc), format!("reference {} / crate {}", short_dbg(r), short_dbg(c))));
        }
    }
    Ok(pass.class(if storage { "storage-mode" } else { "plain-mode" }))
}

// ------------------------------------------------------------------------------------------------
// C03: nothing panics, results are usable

/// every use the property lists of a returned message
pub fn use_message(m: &Message, ctx: &str) -> Result<(), Violation> {
    let r = guard(|| {
        let b = m.as_bytes();
        let l = m.byte_len();
        let mut invalid = None;
        if let PayloadContent::Verbose(args) = &m.payload {
            for (i, a) in args.iter().enumerate() {
                let _ = a.len();
                let _ = a.as_bytes::<BigEndian>();
                let _ = a.as_bytes::<LittleEndian>();
                if !a.valid() {
                    invalid = Some(i);
                }
            }
        }
        (b.len(), l, invalid)
    })
    .map_err(|p| Violation::from_panic(&format!("using the message returned by {} ({})", ctx, short_dbg(m)), &p))?;
    if let Some(i) = r.2 {
        return Err(viol!("returned-argument-invalid", "{} returned a message whose argument {} fails Argument::valid(): {}", ctx, i, short_dbg(m)));
    }
    Ok(())
}

pub const STRING_SIZES: [usize; 14] = [0, 1, 2, 3, 4, 5, 6, 7, 8, 255, 256, 65535, 70000, usize::MAX];

pub fn c03(buf: &[u8], filter_idx: u8, size_sel: u8, types: &[dlt_core::dlt::TypeInfo], big_endian: bool) -> CheckResult {
    let mut past_headers = false;
    let mut pass = Pass::new(false);
    let filter = filter_by_index(if filter_idx % 8 == 0 { 1 } else { filter_idx });
    for storage in [false, true] {
        for f in [None, filter.as_ref()] {
            let what = format!("dlt_message(storage={}, filter={})", storage, f.is_some());
            let res = guard(|| match dlt_message(buf, f, storage) {
                Ok((rest, pm)) => {
                    if !inside(rest, buf) {
                        return Err("remainder is not inside the input".to_string());
                    }
                    Ok(Some(pm))
                }
                Err(DltParseError::IncompleteParse { .. }) => Ok(None),
                Err(_) => Ok(Some(ParsedMessage::Invalid)),
            })
            .map_err(|p| Violation::from_panic(&format!("{} on {}", what, hex_short(buf)), &p))?
            .map_err(|e| viol!("remainder-outside-input", "{}: {} ({})", what, e, hex_short(buf)))?;
            if let Some(pm) = res {
                past_headers = true;
                if let ParsedMessage::Item(m) = &pm {
                    use_message(m, &what)?;
                    pass.classes.push("returned-message");
                }
            }
        }
    }
    let r = guard(|| dlt_consume_msg(buf).map(|(rest, c)| (inside(rest, buf), c)))
        .map_err(|p| Violation::from_panic(&format!("dlt_consume_msg on {}", hex_short(buf)), &p))?;
    if let Ok((false, _)) = r {
        return Err(viol!("remainder-outside-input", "dlt_consume_msg returned a remainder outside the input ({})", hex_short(buf)));
    }
    if matches!(r, Ok((_, Some(_)))) {
        pass.classes.push("consumed-message");
    }
    let r = guard(|| skip_storage_header(buf).map(|(rest, n)| (inside(rest, buf), rest.len(), n)))
        .map_err(|p| Violation::from_panic(&format!("skip_storage_header on {}", hex_short(buf)), &p))?;
    if let Ok((ok, rest_len, n)) = r {
        if !ok || n != 16 || rest_len + 16 != buf.len() {
            return Err(viol!("skip-storage-header", "skip_storage_header returned ({} bytes left, {}) for a {}-byte input", rest_len, n, buf.len()));
        }
    }
    let r = guard(|| forward_to_next_storage_header(buf).map(|(n, rest)| (n, inside(rest, buf), rest.len())))
        .map_err(|p| Violation::from_panic(&format!("forward_to_next_storage_header on {}", hex_short(buf)), &p))?;
    if let Some((n, ok, rest_len)) = r {
        if !ok || n as usize + rest_len != buf.len() {
            return Err(viol!("forward-remainder", "forward_to_next_storage_header returned ({}, {} bytes) for a {}-byte input", n, rest_len, buf.len()));
        }
    }
    let size = STRING_SIZES[size_sel as usize % STRING_SIZES.len()];
    for size in [size, buf.len(), buf.len() / 2] {
        let r = guard(|| {
            dlt_zero_terminated_string(buf, size).map(|(rest, s)| (inside(rest, buf), std::str::from_utf8(s.as_bytes()).is_ok() && inside(s.as_bytes(), buf)))
        })
        .map_err(|p| Violation::from_panic(&format!("dlt_zero_terminated_string(size={}) on {}", size, hex_short(buf)), &p))?;
        if let Ok((rest_ok, str_ok)) = r {
            if !rest_ok || !str_ok {
                return Err(viol!("string-result", "dlt_zero_terminated_string(size={}) returned remainder inside={} / valid str={} ({})", size, rest_ok, str_ok, hex_short(buf)));
            }
        }
    }
    let e = if big_endian { Endianness::Big } else { Endianness::Little };
    let r = guard(|| construct_arguments(e, types, buf)).map_err(|p| Violation::from_panic(&format!("construct_arguments({:?}, {:?}) on {}", e, types, hex_short(buf)), &p))?;
    if let Ok(args) = r {
        pass.classes.push("constructed-arguments");
        guard(|| {
            for a in &args {
                let _ = a.len();
                let _ = a.as_bytes::<BigEndian>();
                let _ = a.as_bytes::<LittleEndian>();
            }
        })
        .map_err(|p| Violation::from_panic("using constructed arguments", &p))?;
    }
    pass.nontrivial = past_headers;
    pass.classes.sort();
    pass.classes.dedup();
    Ok(pass.class_if(buf.len() > 65551, "input>64KiB"))
}

// ------------------------------------------------------------------------------------------------
// C04: consumption

/// (offset of the message start, declared LEN, HTYP) read from the raw bytes only
fn declared(buf: &[u8], storage: bool) -> Option<(usize, usize, u8)> {
    let start = if storage { refcodec::find_pattern(buf)? + 16 } else { 0 };
    if buf.len() < start + 4 {
        return None;
    }
    Some((start, u16::from_be_bytes([buf[start + 2], buf[start + 3]]) as usize, buf[start]))
}

pub fn c04(buf: &[u8], storage: bool, extra_filter: Option<&ProcessedDltFilterConfig>) -> CheckResult {
    let mut pass = Pass::new(false);
    let filters: Vec<Option<ProcessedDltFilterConfig>> = (0..8).map(filter_by_index).collect();
    let mut all: Vec<Option<&ProcessedDltFilterConfig>> = filters.iter().map(|f| f.as_ref()).collect();
    if extra_filter.is_some() {
        all.push(extra_filter);
    }
    let mut first_rest: Option<(usize, usize)> = None; // (filter index, rest len)
    for (fi, f) in all.iter().enumerate() {
        let res = guard(|| dlt_message(buf, *f, storage).map(|(rest, pm)| (is_suffix(rest, buf), rest.len(), pm)))
            .map_err(|p| Violation::from_panic(&format!("dlt_message(storage={}, filter #{}) on {}", storage, fi, hex_short(buf)), &p))?;
        let Ok((suffix, rest_len, pm)) = res else { continue };
        let kind = match &pm {
            ParsedMessage::Item(_) => "item",
            ParsedMessage::FilteredOut(_) => "filtered",
            ParsedMessage::Invalid => "invalid",
        };
        if !suffix || rest_len > buf.len() {
            return Err(viol!(format!("consume:{}:not-a-suffix", kind), "dlt_message(storage={}, filter #{}) returned a remainder that is not a suffix of the input ({})", storage, fi, hex_short(buf)));
        }
        let consumed = buf.len() - rest_len;
        let Some((start, len, htyp)) = declared(buf, storage) else {
            return Err(viol!(format!("consume:{}:ok-without-header", kind), "dlt_message returned Ok({}) although the input has no complete standard header ({})", kind, hex_short(buf)));
        };
        if consumed != start + len || consumed == 0 {
            return Err(viol!(
                format!("consume:{}:wrong-remainder", kind),
                "dlt_message(storage={}, filter #{}) -> {}: consumed {} bytes, but the message starts at {} and declares length {} (expected {}); bytes={}",
                storage, fi, kind, consumed, start, len, start + len, hex_short(buf)
            ));
        }
        if let ParsedMessage::FilteredOut(n) = &pm {
            let want = len as i64 - headers_len(htyp) as i64;
            if *n as i64 != want {
                return Err(viol!("consume:filtered:payload-count", "FilteredOut({}) but the declared payload has {} bytes ({})", n, want, hex_short(buf)));
            }
            pass.classes.push("filtered-out");
            pass.nontrivial = true;
        }
        match first_rest {
            None => first_rest = Some((fi, rest_len)),
            Some((f0, r0)) => {
                if r0 != rest_len {
                    return Err(viol!("consume:filter-changes-remainder", "filter #{} leaves {} bytes, filter #{} leaves {} bytes of the same input ({})", f0, r0, fi, rest_len, hex_short(buf)));
                }
            }
        }
        if let ParsedMessage::Item(m) = &pm {
            // under-/over-filled payload: declared payload length differs from what the arguments encode to
            let reser = guard(|| m.as_bytes().len()).unwrap_or(0);
            let s = if storage { 16 } else { 0 };
            if reser != s + len {
                pass.nontrivial = true;
                pass.classes.push("payload-not-exact-fit");
            }
        }
        if start > if storage { 16 } else { 0 } {
            pass.nontrivial = true;
            pass.classes.push("junk-skipped");
        }
        pass.classes.push("ok");
    }
    if storage {
        let r = guard(|| dlt_consume_msg(buf).map(|(rest, c)| (is_suffix(rest, buf), rest.len(), c))).map_err(|p| Violation::from_panic(&format!("dlt_consume_msg on {}", hex_short(buf)), &p))?;
        match r {
            Ok((_, _, None)) => {
                if !buf.is_empty() {
                    return Err(viol!("consume-msg:none-on-nonempty", "dlt_consume_msg reported no message on a non-empty input ({})", hex_short(buf)));
                }
            }
            Ok((suffix, rest_len, Some(c))) => {
                let len = if buf.len() >= 20 { u16::from_be_bytes([buf[18], buf[19]]) as usize } else { usize::MAX };
                if !suffix || c as usize != 16 + len || buf.len() - rest_len != c as usize || c == 0 {
                    return Err(viol!("consume-msg:wrong-count", "dlt_consume_msg consumed {} (remainder {} of {} bytes), declared length {} ({})", c, rest_len, buf.len(), len, hex_short(buf)));
                }
                pass.classes.push("consume-msg-ok");
            }
            Err(_) => {}
        }
    }
    // repeated parsing terminates and makes progress
    let bound = buf.len() / 4 + 2;
    let mut input = buf;
    let mut steps = 0usize;
    loop {
        let r = guard(|| dlt_message(input, None, storage).map(|(rest, _)| rest.len())).map_err(|p| Violation::from_panic("dlt_message while iterating", &p))?;
        match r {
            Ok(rest_len) if rest_len < input.len() => {
                input = &input[input.len() - rest_len..];
                steps += 1;
                if steps > bound {
                    return Err(viol!("consume:iteration-bound", "iterating dlt_message over {} bytes took more than {} steps", buf.len(), bound));
                }
            }
            Ok(_) => return Err(viol!("consume:no-progress", "dlt_message returned Ok without consuming anything ({})", hex_short(input))),
            Err(_) => break,
        }
    }
    if steps >= 2 {
        pass.classes.push("iterated>=2");
    }
    pass.classes.sort();
    pass.classes.dedup();
    Ok(pass.class(if storage { "storage-mode" } else { "plain-mode" }))
}

// ------------------------------------------------------------------------------------------------
// C16: parse -> write -> parse is a fixpoint

pub fn c16(buf: &[u8], storage: bool) -> CheckResult {
    let r = guard(|| dlt_message(buf, None, storage).map(|(rest, pm)| (rest.len(), pm))).map_err(|p| Violation::from_panic(&format!("dlt_message on {}", hex_short(buf)), &p))?;
    let Ok((rest_len, ParsedMessage::Item(m))) = r else {
        return Ok(Pass::new(false).class("no-message"));
    };
    let b2 = guard(|| m.as_bytes()).map_err(|p| Violation::from_panic(&format!("as_bytes of parsed message {}", short_dbg(&m)), &p))?;
    let s = if storage { 16 } else { 0 };
    let declared = guard(|| m.header.overall_length() as usize).map_err(|p| Violation::from_panic("overall_length of parsed message", &p))?;
    if b2.len() != s + declared {
        return Ok(Pass::new(false).class("reserialisation-has-other-length"));
    }
    let kind = match &m.payload {
        PayloadContent::Verbose(_) => "verbose",
        PayloadContent::NonVerbose(..) => "nonverbose",
        PayloadContent::ControlMsg(..) => "control",
        PayloadContent::NetworkTrace(_) => "nwtrace",
    };
    let r2 = guard(|| dlt_message(&b2, None, storage).map(|(rest, pm)| (rest.len(), pm))).map_err(|p| Violation::from_panic(&format!("dlt_message on re-serialised {}", hex_short(&b2)), &p))?;
    match r2 {
        Ok((0, ParsedMessage::Item(m2))) => {
            msg_eq_bits(&m, &m2).map_err(|d| viol!(format!("reserialise:{}:differs", kind), "re-serialised message parses to a different message: {}\n  input={}\n  rewritten={}", d, hex_short(buf), hex_short(&b2)))?;
            let b3 = guard(|| m2.as_bytes()).map_err(|p| Violation::from_panic("as_bytes of re-parsed message", &p))?;
            if b3 != b2 {
                return Err(viol!(format!("reserialise:{}:bytes-unstable", kind), "serialising again gives different bytes: {} vs {}", hex_short(&b2), hex_short(&b3)));
            }
        }
        other => {
            return Err(viol!(
                format!("reserialise:{}:does-not-parse", kind),
                "re-serialisation of a parsed message does not parse back to one message with nothing left: {}\n  message={}\n  input={}\n  rewritten={}",
                short_dbg(&other), short_dbg(&m), hex_short(buf), hex_short(&b2)
            ))
        }
    }
    let consumed = &buf[..buf.len() - rest_len];
    // the parser skipped junk in front of the storage header: compare from the pattern on
    let start = if storage { refcodec::find_pattern(buf).unwrap_or(0) } else { 0 };
    let normalised = consumed[start.min(consumed.len())..] != b2[..];
    Ok(Pass::new(normalised).class(kind).class_if(normalised, "parser-normalised-input").class_if(!normalised, "canonical-input"))
}
