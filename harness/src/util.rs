//! Small shared helpers: panic capture, hashing, hex, deterministic byte expansion.
use std::cell::RefCell;
use std::hash::{Hash, Hasher};
use std::panic::{catch_unwind, AssertUnwindSafe};
use std::sync::Once;

thread_local! {
    static LAST_PANIC: RefCell<Option<(String, String)>> = const { RefCell::new(None) };
    static GUARD_DEPTH: std::cell::Cell<u32> = const { std::cell::Cell::new(0) };
}
static HOOK: Once = Once::new();

/// Install a silent panic hook that records `(location, message)` per thread.
pub fn install_panic_hook() {
    HOOK.call_once(|| {
        std::panic::set_hook(Box::new(|info| {
            let loc = info
                .location()
                .map(|l| format!("{}:{}", norm_path(l.file()), l.line()))
                .unwrap_or_else(|| "?".to_string());
            let msg = if let Some(s) = info.payload().downcast_ref::<&str>() {
                (*s).to_string()
            } else if let Some(s) = info.payload().downcast_ref::<String>() {
                s.clone()
            } else {
                "<non-string panic>".to_string()
            };
            // (try_with: the hook may run while a thread's locals are being destroyed)
            if GUARD_DEPTH.try_with(|d| d.get()).unwrap_or(1) == 0 {
                // a panic of the harness itself (not of code under test): never silent
                eprintln!("HARNESS PANIC at {}: {}", loc, msg);
            }
            let _ = LAST_PANIC.try_with(|p| *p.borrow_mut() = Some((loc, msg)));
        }));
    });
}

/// `/repo/src/read.rs` -> `src/read.rs` (so signatures do not depend on where the tree lives)
fn norm_path(p: &str) -> String {
    match p.rfind("/src/") {
        Some(i) => p[i + 1..].to_string(),
        None => p.to_string(),
    }
}

/// A panic observed while running code under test.
#[derive(Debug, Clone)]
pub struct Panic {
    pub location: String,
    pub message: String,
}
impl Panic {
    /// stable signature: file (no line) + message with digits collapsed
    pub fn signature(&self) -> String {
        let file = self.location.split(':').next().unwrap_or("?");
        let mut m = String::new();
        let mut last_digit = false;
        for c in self.message.chars().take(60) {
            if c.is_ascii_digit() {
                if !last_digit {
                    m.push('N');
                }
                last_digit = true;
            } else {
                m.push(c);
                last_digit = false;
            }
        }
        format!("panic@{}:{}", file, m)
    }
    pub fn describe(&self) -> String {
        format!("panic at {}: {}", self.location, self.message)
    }
}

/// Run `f`, turning a panic into `Err(Panic)`.
pub fn guard<T>(f: impl FnOnce() -> T) -> Result<T, Panic> {
    install_panic_hook();
    LAST_PANIC.with(|p| *p.borrow_mut() = None);
    GUARD_DEPTH.with(|d| d.set(d.get() + 1));
    let r = catch_unwind(AssertUnwindSafe(f));
    GUARD_DEPTH.with(|d| d.set(d.get() - 1));
    match r {
        Ok(v) => Ok(v),
        Err(_) => {
            let (location, message) = LAST_PANIC
                .with(|p| p.borrow_mut().take())
                .unwrap_or_else(|| ("?".into(), "?".into()));
            Err(Panic { location, message })
        }
    }
}

pub fn splitmix64(mut z: u64) -> u64 {
    z = z.wrapping_add(0x9E37_79B9_7F4A_7C15);
    z = (z ^ (z >> 30)).wrapping_mul(0xBF58_476D_1CE4_E5B9);
    z = (z ^ (z >> 27)).wrapping_mul(0x94D0_49BB_1331_11EB);
    z ^ (z >> 31)
}

/// FNV-1a based stable hasher (std's DefaultHasher is not guaranteed stable across releases).
#[derive(Clone)]
pub struct Fnv(pub u64);
impl Default for Fnv {
    fn default() -> Self {
        Fnv(0xcbf2_9ce4_8422_2325)
    }
}
impl Hasher for Fnv {
    fn finish(&self) -> u64 {
        splitmix64(self.0)
    }
    fn write(&mut self, bytes: &[u8]) {
        for &b in bytes {
            self.0 ^= b as u64;
            self.0 = self.0.wrapping_mul(0x0000_0100_0000_01B3);
        }
    }
}
pub fn hash_of<T: Hash + ?Sized>(t: &T) -> u64 {
    let mut h = Fnv::default();
    t.hash(&mut h);
    h.finish()
}
pub fn hash_str(s: &str) -> u64 {
    hash_of(s)
}

pub fn hex(b: &[u8]) -> String {
    let mut s = String::with_capacity(b.len() * 2);
    for x in b {
        s.push_str(&format!("{:02x}", x));
    }
    s
}
pub fn unhex(s: &str) -> Option<Vec<u8>> {
    let s = s.as_bytes();
    if s.len() % 2 != 0 {
        return None;
    }
    let d = |c: u8| -> Option<u8> {
        match c {
            b'0'..=b'9' => Some(c - b'0'),
            b'a'..=b'f' => Some(c - b'a' + 10),
            b'A'..=b'F' => Some(c - b'A' + 10),
            _ => None,
        }
    };
    let mut out = Vec::with_capacity(s.len() / 2);
    for p in s.chunks(2) {
        out.push(d(p[0])? << 4 | d(p[1])?);
    }
    Some(out)
}
/// hex with an ellipsis for long buffers (for messages and samples)
pub fn hex_short(b: &[u8]) -> String {
    if b.len() <= 96 {
        hex(b)
    } else {
        format!(
            "{}..(+{} bytes)..{}",
            hex(&b[..64]),
            b.len() - 80,
            hex(&b[b.len() - 16..])
        )
    }
}

/// serde helper: Vec<u8> as a hex string (keeps replay files compact and readable)
pub mod hexser {
    use serde::{Deserialize, Deserializer, Serializer};
    pub fn serialize<S: Serializer>(v: &Vec<u8>, s: S) -> Result<S::Ok, S::Error> {
        s.serialize_str(&super::hex(v))
    }
    pub fn deserialize<'de, D: Deserializer<'de>>(d: D) -> Result<Vec<u8>, D::Error> {
        let s = String::deserialize(d)?;
        super::unhex(&s).ok_or_else(|| serde::de::Error::custom("bad hex"))
    }
}
/// serde helper: Vec<Vec<u8>> as hex strings
pub mod hexser_vec {
    use serde::{Deserialize, Deserializer, Serialize, Serializer};
    pub fn serialize<S: Serializer>(v: &Vec<Vec<u8>>, s: S) -> Result<S::Ok, S::Error> {
        let x: Vec<String> = v.iter().map(|b| super::hex(b)).collect();
        x.serialize(s)
    }
    pub fn deserialize<'de, D: Deserializer<'de>>(d: D) -> Result<Vec<Vec<u8>>, D::Error> {
        let s = Vec::<String>::deserialize(d)?;
        s.iter()
            .map(|x| super::unhex(x).ok_or_else(|| serde::de::Error::custom("bad hex")))
            .collect()
    }
}

/// Deterministic expansion of `(seed, len, alphabet)` into bytes; alphabet 0 = all byte values.
pub fn expand_bytes(seed: u64, len: usize, alphabet: u8) -> Vec<u8> {
    const ALPHAS: [&[u8]; 6] = [
        &[],
        &[b'D', b'L', b'T', 0x01, 0x00, 0xFF],
        &[b'a', b'b', b'Z', b'0', b' ', b'_'],
        &[0x00],
        &[0x01, 0x02, 0x7f, 0x80, 0xC3, 0xA9],
        &[0xFF, 0xFE, b'D', b'L', b'T'],
    ];
    let alpha = ALPHAS[(alphabet as usize) % ALPHAS.len()];
    let mut out = Vec::with_capacity(len);
    let mut s = seed;
    let mut word = 0u64;
    for i in 0..len {
        if i % 8 == 0 {
            s = s.wrapping_add(0x9E37_79B9_7F4A_7C15);
            word = splitmix64(s);
        }
        let b = (word >> ((i % 8) * 8)) as u8;
        out.push(if alpha.is_empty() {
            b
        } else {
            alpha[b as usize % alpha.len()]
        });
    }
    out
}

/// Deterministic text of exactly `len` bytes, valid UTF-8, no NUL. `alphabet` selects the repertoire.
pub fn expand_text(seed: u64, len: usize, alphabet: u8) -> String {
    const REPS: [&[&str]; 4] = [
        &["a", "B", "7", " ", "_", "z", "-", "Q"],
        &["a", "é", "ß", "x"],
        &["€", "a", "é", "日", "b"],
        &["\u{1}", "\u{7f}", "a", "𝄞", "é"],
    ];
    let rep = REPS[(alphabet as usize) % REPS.len()];
    let mut out = String::with_capacity(len);
    let mut s = seed;
    while out.len() < len {
        s = s.wrapping_add(0x9E37_79B9_7F4A_7C15);
        let w = splitmix64(s);
        let piece = rep[(w % rep.len() as u64) as usize];
        if out.len() + piece.len() <= len {
            out.push_str(piece);
        } else {
            out.push('a');
        }
    }
    out
}
