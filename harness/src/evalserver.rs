//! Child-process evaluator for C12 (DESIGN.md 2.5): "never loops forever" cannot be observed
//! in-process and must not be judged by wall-clock time, so each load runs in a persistent child and
//! the parent watches the child's *consumed CPU time*.
use crate::util::guard;
use dlt_core::fibex::{gather_fibex_data, FibexConfig};
use std::io::{BufRead, BufReader, Write};
use std::process::{Child, ChildStdin, Command, Stdio};
use std::sync::mpsc::{channel, Receiver, RecvTimeoutError};
use std::time::{Duration, Instant};

/// child side: one request per line (JSON array of paths), one answer per line
pub fn serve() {
    crate::util::install_panic_hook();
    let stdin = std::io::stdin();
    let mut out = std::io::stdout();
    for line in stdin.lock().lines() {
        let Ok(line) = line else { break };
        let paths: Vec<String> = match serde_json::from_str(&line) {
            Ok(p) => p,
            Err(_) => {
                let _ = writeln!(out, "E bad request");
                let _ = out.flush();
                continue;
            }
        };
        let answer = match guard(|| {
            gather_fibex_data(FibexConfig {
                fibex_file_paths: paths,
            })
        }) {
            Ok(Some(m)) => format!("S {} {}", m.frame_map.len(), m.frame_map_with_key.len()),
            Ok(None) => "N".to_string(),
            Err(p) => format!("P {}\t{}", p.signature(), p.describe().replace('\n', " ")),
        };
        let _ = writeln!(out, "{}", answer);
        let _ = out.flush();
    }
}

#[derive(Debug, Clone, PartialEq)]
pub enum Loaded {
    Some,
    None,
    Panic {
        sig: String,
        text: String,
    },
    /// the child died (abort, stack overflow, signal)
    Crash(String),
    /// the load consumed more than the CPU budget without answering
    Hang {
        cpu_s: f64,
    },
    /// no answer and no CPU consumption: the machinery is stuck, not the code under test
    Stalled,
}

pub struct Evaluator {
    child: Child,
    stdin: ChildStdin,
    rx: Receiver<Option<String>>,
    pub loads: u64,
}

fn cpu_seconds(pid: u32) -> Option<f64> {
    let s = std::fs::read_to_string(format!("/proc/{}/stat", pid)).ok()?;
    // fields after the command name in parentheses
    let rest = &s[s.rfind(')')? + 2..];
    let f: Vec<&str> = rest.split_whitespace().collect();
    let utime: f64 = f.get(11)?.parse().ok()?;
    let stime: f64 = f.get(12)?.parse().ok()?;
    let tck = unsafe { libc::sysconf(libc::_SC_CLK_TCK) } as f64;
    Some((utime + stime) / if tck > 0.0 { tck } else { 100.0 })
}

impl Evaluator {
    pub fn spawn() -> std::io::Result<Self> {
        let exe = std::env::current_exe()?;
        let mut child = Command::new(exe)
            .arg("eval-server")
            .stdin(Stdio::piped())
            .stdout(Stdio::piped())
            .stderr(Stdio::null())
            .spawn()?;
        let stdin = child.stdin.take().unwrap();
        let stdout = child.stdout.take().unwrap();
        let (tx, rx) = channel();
        std::thread::spawn(move || {
            let mut r = BufReader::new(stdout);
            loop {
                let mut line = String::new();
                match r.read_line(&mut line) {
                    Ok(0) | Err(_) => {
                        let _ = tx.send(None);
                        break;
                    }
                    Ok(_) => {
                        if tx.send(Some(line.trim_end().to_string())).is_err() {
                            break;
                        }
                    }
                }
            }
        });
        Ok(Evaluator {
            child,
            stdin,
            rx,
            loads: 0,
        })
    }

    /// load the given paths in the child; `budget` = CPU seconds after which the load counts as non-terminating
    pub fn load(&mut self, paths: &[String], budget: f64) -> Loaded {
        self.loads += 1;
        let pid = self.child.id();
        let before = cpu_seconds(pid).unwrap_or(0.0);
        let req = serde_json::to_string(paths).unwrap();
        if writeln!(self.stdin, "{}", req)
            .and_then(|_| self.stdin.flush())
            .is_err()
        {
            return Loaded::Crash("cannot write to the evaluator (child gone)".into());
        }
        let start = Instant::now();
        let mut last_progress = Instant::now();
        let mut last_cpu = before;
        loop {
            match self.rx.recv_timeout(Duration::from_millis(
                if start.elapsed().as_millis() < 200 {
                    5
                } else {
                    100
                },
            )) {
                Ok(Some(line)) => {
                    return match line.as_bytes().first() {
                        Some(b'S') => Loaded::Some,
                        Some(b'N') => Loaded::None,
                        Some(b'P') => {
                            let rest = line[1..].trim();
                            let (sig, text) = rest.split_once('\t').unwrap_or((rest, rest));
                            Loaded::Panic {
                                sig: sig.to_string(),
                                text: text.to_string(),
                            }
                        }
                        _ => Loaded::Crash(format!("unexpected answer {:?}", line)),
                    }
                }
                Ok(None) | Err(RecvTimeoutError::Disconnected) => {
                    let status = self
                        .child
                        .wait()
                        .map(|s| s.to_string())
                        .unwrap_or_else(|e| e.to_string());
                    return Loaded::Crash(format!("evaluator child died: {}", status));
                }
                Err(RecvTimeoutError::Timeout) => {
                    let now = cpu_seconds(pid).unwrap_or(last_cpu);
                    if now - before > budget {
                        return Loaded::Hang {
                            cpu_s: now - before,
                        };
                    }
                    if now > last_cpu + 0.005 {
                        last_cpu = now;
                        last_progress = Instant::now();
                    } else if last_progress.elapsed() > Duration::from_secs(120) {
                        return Loaded::Stalled;
                    }
                }
            }
        }
    }
    pub fn kill(&mut self) {
        let _ = self.child.kill();
        let _ = self.child.wait();
    }
}
impl Drop for Evaluator {
    fn drop(&mut self) {
        self.kill();
    }
}
