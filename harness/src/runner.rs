//! Seeded parallel driver: proptest search with shrinking, bounded-exhaustive enumeration,
//! class counters, distinct non-trivial set, evidence and replay files, known-finding matcher.
use crate::util::{hash_of, hash_str, splitmix64};
use proptest::strategy::Strategy;
use proptest::test_runner::{Config, RngSeed, TestCaseError, TestError, TestRunner};
use serde::de::DeserializeOwned;
use serde::Serialize;
use serde_json::{json, Value};
use std::cell::{Cell, RefCell};
use std::collections::{BTreeMap, BTreeSet, HashSet};
use std::fmt::Debug;
use std::hash::Hash;
use std::path::{Path, PathBuf};
use std::sync::atomic::{AtomicBool, AtomicU64, Ordering};
use std::sync::Mutex;
use std::time::Instant;

pub const WORKERS: usize = 16;

/// incremented whenever a case (or an enumeration block) has been judged; the watchdog reads it
pub static HEARTBEAT: AtomicU64 = AtomicU64::new(0);

/// the case each worker is judging right now (so that a call that never returns can be named and re-judged in a
/// child process); the case is cloned, serialisation happens only if the watchdog needs it
pub struct Slot {
    since: Instant,
    section: std::sync::Arc<str>,
    make: Box<dyn FnOnce() -> Value + Send>,
}
pub static SLOTS: [Mutex<Option<Slot>>; WORKERS] = [const { Mutex::new(None) }; WORKERS];

pub fn cpu_seconds_of(pid: u32) -> Option<f64> {
    let s = std::fs::read_to_string(format!("/proc/{}/stat", pid)).ok()?;
    let rest = s.rsplit(')').next()?;
    let f: Vec<&str> = rest.split_whitespace().collect();
    Some((f.get(11)?.parse::<f64>().ok()? + f.get(12)?.parse::<f64>().ok()?) / 100.0)
}

/// Re-judge a stuck case in a child process (`dltverif replay`) under a CPU budget.
/// Some(true) = the child does not return either (confirmed), Some(false) = it returned, None = could not run it.
/// Case tracking for the crash supervisor (`dltverif run` re-runs a check whose process died by a signal with
/// DLTVERIF_TRACK=<dir>): every worker writes the case it is about to evaluate to <dir>/w<k>.json, so that the case in
/// flight survives an abort (stack overflow, segmentation fault) that no `catch_unwind` can stop.
static TRACK: std::sync::OnceLock<Option<(PathBuf, String)>> = std::sync::OnceLock::new();
fn track(w: usize, section: &str, make: &dyn Fn() -> Value) {
    let t = TRACK.get_or_init(|| std::env::var("DLTVERIF_TRACK").ok().map(|d| (PathBuf::from(d), std::env::var("DLTVERIF_TRACK_PROP").unwrap_or_default())));
    if let Some((dir, prop)) = t {
        let body = json!({"property": prop, "section": section, "case": make(), "violation": "the check process died while this case was being evaluated"});
        let _ = std::fs::write(dir.join(format!("w{}.json", w)), serde_json::to_vec(&body).unwrap_or_default());
    }
}

fn confirm_in_child(prop: &str, file: &Path, budget_cpu_s: f64) -> Option<bool> {
    let exe = std::env::current_exe().ok()?;
    let mut child = std::process::Command::new(exe)
        .arg("replay")
        .arg(prop)
        .arg(file)
        .env("DLTVERIF_INNER", "1")
        .stdout(std::process::Stdio::null())
        .stderr(std::process::Stdio::null())
        .spawn()
        .ok()?;
    let started = Instant::now();
    loop {
        std::thread::sleep(std::time::Duration::from_millis(200));
        if let Ok(Some(_)) = child.try_wait() {
            return Some(false);
        }
        let cpu = cpu_seconds_of(child.id()).unwrap_or(0.0);
        if cpu > budget_cpu_s {
            let _ = child.kill();
            let _ = child.wait();
            return Some(true);
        }
        if started.elapsed().as_secs() > 600 {
            let _ = child.kill();
            let _ = child.wait();
            return None;
        }
    }
}

fn process_cpu_seconds() -> f64 {
    let Ok(s) = std::fs::read_to_string("/proc/self/stat") else {
        return 0.0;
    };
    // fields 14 and 15 (utime, stime) counted behind the closing parenthesis of the command name
    let Some(rest) = s.rsplit(')').next() else {
        return 0.0;
    };
    let f: Vec<&str> = rest.split_whitespace().collect();
    let ticks: f64 = f.get(11).and_then(|x| x.parse::<f64>().ok()).unwrap_or(0.0)
        + f.get(12).and_then(|x| x.parse::<f64>().ok()).unwrap_or(0.0);
    ticks / 100.0
}

/// Watchdog for code under test that never returns inside this process (only C12 runs loads in a child): when no case
/// has been finished for at least 90 s of wall-clock time AND the process has burned more than 300 s of CPU time since
/// the last finished case (a spinning worker, not a sleeping machine), the cases the stuck workers are judging are
/// written out and each is re-judged by `dltverif replay` in a child process under a budget of 30 s of CPU time.  A case
/// on which the child does not return either is a VIOLATION (with that case as the replay); otherwise — enumerations,
/// cases that return in the child — the run is given up as INCONCLUSIVE (exit 2), never as a violation.
pub fn spawn_watchdog(prop: String) {
    std::thread::spawn(move || {
        let mut last = HEARTBEAT.load(Ordering::Relaxed);
        let mut since = Instant::now();
        let mut cpu_at = process_cpu_seconds();
        loop {
            std::thread::sleep(std::time::Duration::from_secs(5));
            let now = HEARTBEAT.load(Ordering::Relaxed);
            if now != last {
                last = now;
                since = Instant::now();
                cpu_at = process_cpu_seconds();
                continue;
            }
            let burned = process_cpu_seconds() - cpu_at;
            if since.elapsed().as_secs() >= 90 && burned > 300.0 {
                // name the cases the stuck workers are in and re-judge each in a child process under a CPU budget
                let root = match std::env::var("DLTVERIF_OUT") {
                    Ok(d) if !d.is_empty() => PathBuf::from(d),
                    _ => std::env::var("DLTVERIF_ROOT")
                        .map(PathBuf::from)
                        .unwrap_or_else(|_| PathBuf::from(".")),
                };
                let mut confirmed = vec![];
                for slot in SLOTS.iter() {
                    let taken = match slot.try_lock() {
                        Ok(mut g) => g.take(),
                        Err(_) => None,
                    };
                    let Some(sl) = taken else { continue };
                    if sl.since.elapsed().as_secs() < 60 || confirmed.len() >= 2 {
                        continue;
                    }
                    let case = (sl.make)();
                    let body = json!({"property": prop, "section": &*sl.section, "signature": "does-not-return", "violation": "the call did not return (re-judged in a child process under a CPU budget)", "case": case});
                    let text = serde_json::to_string_pretty(&body).unwrap_or_default();
                    let dir = root.join("replays");
                    let _ = std::fs::create_dir_all(&dir);
                    let path = dir.join(format!(
                        "{}-does-not-return-{:016x}.json",
                        prop,
                        hash_str(&text)
                    ));
                    if std::fs::write(&path, text).is_err() {
                        continue;
                    }
                    if confirm_in_child(&prop, &path, 30.0) == Some(true) {
                        confirmed.push(path);
                    } else {
                        let _ = std::fs::remove_file(&path);
                    }
                }
                if !confirmed.is_empty() {
                    for p in &confirmed {
                        println!("VIOLATION property={} replay={}", prop, p.display());
                        println!("  a call into dlt-core does not return for this case: confirmed in a child process, which burned 30 s of CPU on it alone (a normal case takes micro- to milliseconds)");
                    }
                    std::process::exit(1);
                }
                println!(
                    "INCONCLUSIVE property={} watchdog: no case finished for {} s while {:.0} s of CPU were consumed - some call into dlt-core does not return in this process (non-termination is judged by the C12 check, in a child process); no verdict",
                    prop, since.elapsed().as_secs(), burned
                );
                std::process::exit(2);
            }
        }
    });
}

thread_local! {
    static SHRINKING: Cell<bool> = const { Cell::new(false) };
}
/// true while proptest is shrinking a failure on this thread (oracles with a time budget use a smaller one)
pub fn shrinking() -> bool {
    SHRINKING.with(|s| s.get())
}

#[derive(Debug, Clone, Copy, PartialEq, Eq)]
pub enum Tier {
    Quick,
    Thorough,
}
impl Tier {
    pub fn name(self) -> &'static str {
        match self {
            Tier::Quick => "quick",
            Tier::Thorough => "thorough",
        }
    }
    /// pick the (quick, thorough) amount of work
    pub fn pick(self, q: u64, t: u64) -> u64 {
        match self {
            Tier::Quick => q,
            Tier::Thorough => t,
        }
    }
}

pub use crate::verdict::{CheckResult, Pass, Violation};

#[derive(Debug, Clone)]
pub struct Known {
    pub property: String,
    pub signature: String,
    pub text: String,
}

/// `/verif/KNOWN_FINDINGS.txt`: lines `known: property=<id> signature=<sig> <what fails>` and
/// `fixed: property=<id> <commit> <what failed>` (fixed lines suppress nothing).
pub fn load_known(root: &Path) -> Vec<Known> {
    let mut out = vec![];
    if let Ok(s) = std::fs::read_to_string(root.join("KNOWN_FINDINGS.txt")) {
        for line in s.lines() {
            let line = line.trim();
            if let Some(rest) = line.strip_prefix("known:") {
                let rest = rest.trim();
                let mut prop = String::new();
                let mut sig = String::new();
                let mut text = vec![];
                for tok in rest.split_whitespace() {
                    if let Some(p) = tok.strip_prefix("property=") {
                        if prop.is_empty() {
                            prop = p.to_string();
                            continue;
                        }
                    }
                    if let Some(s) = tok.strip_prefix("signature=") {
                        if sig.is_empty() {
                            sig = s.to_string();
                            continue;
                        }
                    }
                    text.push(tok);
                }
                if !prop.is_empty() && !sig.is_empty() {
                    out.push(Known {
                        property: prop,
                        signature: sig,
                        text: text.join(" "),
                    });
                }
            }
        }
    }
    out
}

struct SectionReport {
    name: String,
    evaluations: u64,
    nontrivial: u64,
    exhaustive: bool,
}

pub struct Run {
    pub root: PathBuf,
    pub prop: String,
    pub tier: Tier,
    pub seed: u64,
    pub scale: f64,
    level: &'static str,
    start: Instant,
    evaluations: AtomicU64,
    classes: Mutex<BTreeMap<String, u64>>,
    nontrivial: Mutex<HashSet<u64>>,
    samples: Mutex<Vec<Value>>,
    sections: Mutex<Vec<SectionReport>>,
    excluded_known: AtomicU64,
    pub shrink_iters: std::sync::atomic::AtomicU32,
    subcases: AtomicU64,
    enum_nontrivial: AtomicU64,
    known: Vec<Known>,
    known_hit: Mutex<BTreeSet<usize>>,
    violations: Mutex<Vec<(String, String)>>, // (replay path, message)
    degenerate: Mutex<Vec<String>>,
    inconclusive: Mutex<Vec<String>>,
    rule: Mutex<String>,
    assumptions: Mutex<Vec<String>>,
    extra: Mutex<BTreeMap<String, Value>>,
    all_exhaustive: AtomicBool,
}

/// Per-block result of a bounded-exhaustive enumeration.
#[derive(Default)]
pub struct BlockReport {
    pub evaluations: u64,
    pub nontrivial: u64,
    pub classes: Vec<(&'static str, u64)>,
    pub sample: Option<Value>,
    /// first violation in the block, with the case written as JSON (the replay input)
    pub violation: Option<(Value, Violation)>,
}

impl Run {
    pub fn new(root: &Path, prop: &str, tier: Tier, seed: u64, level: &'static str) -> Self {
        let known = load_known(root)
            .into_iter()
            .filter(|k| k.property == prop)
            .collect();
        let scale = std::env::var("DLTVERIF_SCALE")
            .ok()
            .and_then(|s| s.parse::<f64>().ok())
            .unwrap_or(1.0);
        Run {
            root: root.to_path_buf(),
            prop: prop.to_string(),
            tier,
            seed,
            scale,
            level,
            start: Instant::now(),
            evaluations: AtomicU64::new(0),
            classes: Mutex::new(BTreeMap::new()),
            nontrivial: Mutex::new(HashSet::new()),
            samples: Mutex::new(vec![]),
            sections: Mutex::new(vec![]),
            excluded_known: AtomicU64::new(0),
            shrink_iters: std::sync::atomic::AtomicU32::new(4_000),
            subcases: AtomicU64::new(0),
            enum_nontrivial: AtomicU64::new(0),
            known,
            known_hit: Mutex::new(BTreeSet::new()),
            violations: Mutex::new(vec![]),
            degenerate: Mutex::new(vec![]),
            inconclusive: Mutex::new(vec![]),
            rule: Mutex::new(String::new()),
            assumptions: Mutex::new(vec![]),
            extra: Mutex::new(BTreeMap::new()),
            all_exhaustive: AtomicBool::new(true),
        }
    }
    /// where evidence/ and replays/ are written (DLTVERIF_OUT for scratch runs, else the root)
    pub fn out_dir(&self) -> PathBuf {
        match std::env::var("DLTVERIF_OUT") {
            Ok(d) if !d.is_empty() => PathBuf::from(d),
            _ => self.root.clone(),
        }
    }
    pub fn rule(&self, r: &str) {
        *self.rule.lock().unwrap() = r.to_string();
    }
    pub fn assume(&self, a: &str) {
        self.assumptions.lock().unwrap().push(a.to_string());
    }
    pub fn extra(&self, k: &str, v: Value) {
        self.extra.lock().unwrap().insert(k.to_string(), v);
    }
    pub fn inconclusive(&self, why: String) {
        self.inconclusive.lock().unwrap().push(why);
    }
    pub fn cases(&self, q: u64, t: u64) -> u64 {
        ((self.tier.pick(q, t) as f64) * self.scale).max(1.0) as u64
    }
    fn is_known(&self, v: &Violation) -> bool {
        for (i, k) in self.known.iter().enumerate() {
            if v.sig.contains(&k.signature) {
                self.known_hit.lock().unwrap().insert(i);
                return true;
            }
        }
        false
    }
    pub fn has_violation(&self) -> bool {
        !self.violations.lock().unwrap().is_empty()
    }

    fn add_classes(&self, local: &BTreeMap<&'static str, u64>, section: &str) {
        let mut g = self.classes.lock().unwrap();
        for (k, v) in local {
            *g.entry(format!("{}/{}", section, k)).or_insert(0) += v;
        }
    }

    /// Write a replay file for a failing case and record the violation.
    pub fn report_violation(&self, section: &str, case: Value, v: &Violation) -> String {
        let dir = self.out_dir().join("replays");
        let _ = std::fs::create_dir_all(&dir);
        let body = json!({
            "property": self.prop, "section": section, "signature": v.sig,
            "violation": v.msg, "seed": self.seed, "tier": self.tier.name(), "case": case,
        });
        let text = serde_json::to_string_pretty(&body).unwrap();
        let safe: String = section
            .chars()
            .map(|c| {
                if c.is_ascii_alphanumeric() || c == '-' || c == '_' {
                    c
                } else {
                    '-'
                }
            })
            .collect();
        let path = dir.join(format!(
            "{}-{}-{:016x}.json",
            self.prop,
            safe,
            hash_str(&text)
        ));
        let _ = std::fs::write(&path, text);
        let p = path.to_string_lossy().to_string();
        self.violations
            .lock()
            .unwrap()
            .push((p.clone(), v.msg.clone()));
        p
    }
    /// Record a violation whose replay already exists (a committed regression file).
    pub fn report_existing(&self, path: &Path, v: &Violation) {
        self.violations
            .lock()
            .unwrap()
            .push((path.to_string_lossy().to_string(), v.msg.clone()));
    }

    /// Seeded random search with shrinking over `strat`, split over a fixed number of workers.
    /// `floor` = minimal fraction of non-trivial cases (below it the run is "generator degenerate").
    pub fn random<C, S, FS, FC>(&self, section: &str, cases: u64, floor: f64, strat: FS, check: FC)
    where
        C: Debug + Clone + Hash + Serialize + Send + 'static,
        S: Strategy<Value = C>,
        FS: Fn() -> S + Sync,
        FC: Fn(&C) -> CheckResult + Sync,
    {
        if self.has_violation() {
            return;
        }
        let section_arc: std::sync::Arc<str> = std::sync::Arc::from(section);
        let per_worker = cases.div_ceil(WORKERS as u64).max(1);
        let stop = AtomicBool::new(false);
        let fails: Mutex<Vec<(usize, C)>> = Mutex::new(vec![]);
        let sec_evals = AtomicU64::new(0);
        let sec_nt = AtomicU64::new(0);
        std::thread::scope(|sc| {
            for w in 0..WORKERS {
                let (stop, fails, strat, check, sec_evals, sec_nt) =
                    (&stop, &fails, &strat, &check, &sec_evals, &sec_nt);
                let section_arc = section_arc.clone();
                sc.spawn(move || {
                    crate::util::install_panic_hook();
                    let wseed = splitmix64(
                        self.seed
                            ^ splitmix64(
                                hash_str(&format!("{}/{}", self.prop, section))
                                    .wrapping_add(w as u64),
                            ),
                    );
                    let mut cfg = Config::default();
                    cfg.cases = per_worker as u32;
                    cfg.failure_persistence = None;
                    cfg.rng_seed = RngSeed::Fixed(wseed);
                    cfg.max_shrink_iters = self.shrink_iters.load(Ordering::Relaxed);
                    cfg.max_global_rejects = 1_000_000;
                    cfg.verbose = 0;
                    let mut runner = TestRunner::new(cfg);
                    let failed = Cell::new(false);
                    let evals = Cell::new(0u64);
                    let subs = Cell::new(0u64);
                    let local_classes: RefCell<BTreeMap<&'static str, u64>> =
                        RefCell::new(BTreeMap::new());
                    let local_nt: RefCell<HashSet<u64>> = RefCell::new(HashSet::new());
                    let local_samples: RefCell<Vec<Value>> = RefCell::new(vec![]);
                    let res = runner.run(&strat(), |case: C| {
                        if failed.get() {
                            // shrinking: evaluate only, no counting
                            SHRINKING.with(|s| s.set(true));
                            HEARTBEAT.fetch_add(1, Ordering::Relaxed);
                            return match check(&case) {
                                Ok(_) => Ok(()),
                                Err(v) => {
                                    if self.is_known(&v) {
                                        Ok(())
                                    } else {
                                        Err(TestCaseError::fail(v.sig))
                                    }
                                }
                            };
                        }
                        if stop.load(Ordering::Relaxed) {
                            return Ok(());
                        }
                        evals.set(evals.get() + 1);
                        track(w, section, &|| serde_json::to_value(&case).unwrap_or(Value::Null));
                        {
                            let kept = case.clone();
                            *SLOTS[w].lock().unwrap() = Some(Slot {
                                since: Instant::now(),
                                section: section_arc.clone(),
                                make: Box::new(move || {
                                    serde_json::to_value(&kept).unwrap_or(Value::Null)
                                }),
                            });
                        }
                        let verdict = check(&case);
                        *SLOTS[w].lock().unwrap() = None;
                        HEARTBEAT.fetch_add(1, Ordering::Relaxed);
                        match verdict {
                            Ok(pass) => {
                                subs.set(subs.get() + pass.subcases);
                                let mut lc = local_classes.borrow_mut();
                                for c in &pass.classes {
                                    *lc.entry(c).or_insert(0) += 1;
                                }
                                if pass.nontrivial {
                                    local_nt.borrow_mut().insert(hash_of(&case));
                                    if w == 0 && local_samples.borrow().len() < 2 {
                                        local_samples
                                            .borrow_mut()
                                            .push(sample_json(section, &case, &pass));
                                    }
                                }
                                Ok(())
                            }
                            Err(v) => {
                                if self.is_known(&v) {
                                    self.excluded_known.fetch_add(1, Ordering::Relaxed);
                                    Ok(())
                                } else {
                                    failed.set(true);
                                    stop.store(true, Ordering::Relaxed);
                                    Err(TestCaseError::fail(v.sig))
                                }
                            }
                        }
                    });
                    SHRINKING.with(|s| s.set(false));
                    sec_evals.fetch_add(evals.get(), Ordering::Relaxed);
                    self.evaluations.fetch_add(evals.get(), Ordering::Relaxed);
                    self.subcases.fetch_add(subs.get(), Ordering::Relaxed);
                    self.add_classes(&local_classes.borrow(), section);
                    {
                        let nt = local_nt.borrow();
                        sec_nt.fetch_add(nt.len() as u64, Ordering::Relaxed);
                        let salt = hash_str(section);
                        let mut g = self.nontrivial.lock().unwrap();
                        for h in nt.iter() {
                            g.insert(h ^ salt);
                        }
                    }
                    self.samples
                        .lock()
                        .unwrap()
                        .extend(local_samples.into_inner());
                    match res {
                        Ok(()) => {}
                        Err(TestError::Fail(_, minimal)) => {
                            fails.lock().unwrap().push((w, minimal))
                        }
                        Err(TestError::Abort(why)) => {
                            self.degenerate
                                .lock()
                                .unwrap()
                                .push(format!("{}: proptest aborted: {}", section, why));
                        }
                    }
                });
            }
        });
        let mut fails = fails.into_inner().unwrap();
        fails.sort_by_key(|f| f.0);
        if let Some((_, minimal)) = fails.into_iter().next() {
            let v = match check(&minimal) {
                Err(v) => v,
                Ok(_) => Violation::new(
                    "flaky",
                    "shrunk case passed on re-evaluation (non-deterministic oracle?)",
                ),
            };
            let path = self.report_violation(
                section,
                serde_json::to_value(&minimal).unwrap_or(Value::Null),
                &v,
            );
            eprintln!(
                "[{}] {}: violation: {}\n  replay: {}",
                self.prop, section, v.msg, path
            );
        }
        let e = sec_evals.load(Ordering::Relaxed);
        let n = sec_nt.load(Ordering::Relaxed);
        if !self.has_violation() && e >= 200 && (n as f64) < floor * e as f64 {
            self.degenerate.lock().unwrap().push(format!(
                "{}: only {} of {} cases non-trivial (floor {:.0}%)",
                section,
                n,
                e,
                floor * 100.0
            ));
        }
        self.all_exhaustive.store(false, Ordering::Relaxed);
        self.sections.lock().unwrap().push(SectionReport {
            name: section.to_string(),
            evaluations: e,
            nontrivial: n,
            exhaustive: false,
        });
    }

    /// Bounded-exhaustive enumeration in fixed order: `blocks` blocks, distributed over the workers;
    /// `f(block)` enumerates its block completely. Cases of an enumeration are distinct by construction.
    pub fn enumerate<F>(&self, section: &str, blocks: u64, exhaustive: bool, f: F)
    where
        F: Fn(u64) -> BlockReport + Sync,
    {
        if self.has_violation() {
            return;
        }
        let next = AtomicU64::new(0);
        let sec_evals = AtomicU64::new(0);
        let sec_nt = AtomicU64::new(0);
        let fails: Mutex<Vec<(u64, Value, Violation)>> = Mutex::new(vec![]);
        std::thread::scope(|sc| {
            let section_arc: std::sync::Arc<str> = std::sync::Arc::from(section);
            for w in 0..WORKERS.min(blocks as usize).max(1) {
                let (next, fails, f, sec_evals, sec_nt) = (&next, &fails, &f, &sec_evals, &sec_nt);
                let section_arc = section_arc.clone();
                sc.spawn(move || {
                    crate::util::install_panic_hook();
                    let mut local_classes: BTreeMap<&'static str, u64> = BTreeMap::new();
                    loop {
                        let b = next.fetch_add(1, Ordering::Relaxed);
                        if b >= blocks || !fails.lock().unwrap().is_empty() {
                            break;
                        }
                        // (a block that never returns is named by its number; properties whose `replay` understands
                        // {"enum_block": n} get it re-judged in a child process by the watchdog)
                        track(w, section, &|| json!({"enum_block": b}));
                        *SLOTS[w].lock().unwrap() = Some(Slot {
                            since: Instant::now(),
                            section: section_arc.clone(),
                            make: Box::new(move || json!({"enum_block": b})),
                        });
                        let rep = f(b);
                        *SLOTS[w].lock().unwrap() = None;
                        HEARTBEAT.fetch_add(1, Ordering::Relaxed);
                        sec_evals.fetch_add(rep.evaluations, Ordering::Relaxed);
                        sec_nt.fetch_add(rep.nontrivial, Ordering::Relaxed);
                        for (c, n) in rep.classes {
                            *local_classes.entry(c).or_insert(0) += n;
                        }
                        if let Some(s) = rep.sample {
                            let mut g = self.samples.lock().unwrap();
                            if g.iter().filter(|x| x["section"] == section).count() < 3 {
                                g.push(json!({"section": section, "case": s}));
                            }
                        }
                        if let Some((case, v)) = rep.violation {
                            if self.is_known(&v) {
                                self.excluded_known.fetch_add(1, Ordering::Relaxed);
                            } else {
                                fails.lock().unwrap().push((b, case, v));
                            }
                        }
                    }
                    self.add_classes(&local_classes, section);
                });
            }
        });
        let e = sec_evals.load(Ordering::Relaxed);
        let n = sec_nt.load(Ordering::Relaxed);
        self.evaluations.fetch_add(e, Ordering::Relaxed);
        // cases of an enumeration are distinct by construction
        self.enum_nontrivial.fetch_add(n, Ordering::Relaxed);
        let mut fails = fails.into_inner().unwrap();
        fails.sort_by_key(|f| f.0);
        if let Some((_, case, v)) = fails.into_iter().next() {
            let path = self.report_violation(section, case, &v);
            eprintln!(
                "[{}] {}: violation: {}\n  replay: {}",
                self.prop, section, v.msg, path
            );
        }
        if !exhaustive {
            self.all_exhaustive.store(false, Ordering::Relaxed);
        }
        self.sections.lock().unwrap().push(SectionReport {
            name: section.to_string(),
            evaluations: e,
            nontrivial: n,
            exhaustive,
        });
    }

    /// Re-run the committed regression replays of this property (seconds-long replay tier).
    pub fn regressions(&self, replay: &dyn Fn(&str, &Value) -> Option<CheckResult>) {
        if std::env::var("DLTVERIF_SKIP_REGRESSIONS").is_ok() {
            // development aid for sensitivity experiments: judge the generated search alone
            return;
        }
        let dir = self.root.join("regressions");
        let mut files: Vec<PathBuf> = match std::fs::read_dir(&dir) {
            Ok(rd) => rd.filter_map(|e| e.ok().map(|e| e.path())).collect(),
            Err(_) => vec![],
        };
        files.sort();
        let mut n = 0u64;
        for f in files {
            let name = f.file_name().unwrap().to_string_lossy().to_string();
            if !name.starts_with(&format!("{}-", self.prop)) || !name.ends_with(".json") {
                continue;
            }
            let Ok(text) = std::fs::read_to_string(&f) else {
                continue;
            };
            let Ok(body) = serde_json::from_str::<Value>(&text) else {
                continue;
            };
            let section = body["section"].as_str().unwrap_or("").to_string();
            match replay(&section, &body["case"]) {
                Some(Ok(_)) => n += 1,
                Some(Err(v)) => {
                    n += 1;
                    if self.is_known(&v) {
                        self.excluded_known.fetch_add(1, Ordering::Relaxed);
                    } else {
                        eprintln!("[{}] regression {} fails: {}", self.prop, name, v.msg);
                        self.report_existing(&f, &v);
                    }
                }
                None => eprintln!(
                    "[{}] regression {}: unknown section {:?}",
                    self.prop, name, section
                ),
            }
        }
        self.evaluations.fetch_add(n, Ordering::Relaxed);
        self.extra("regressions_replayed", json!(n));
    }

    /// Write the evidence file, print the result lines, return the process exit code.
    pub fn finish(&self) -> i32 {
        let wall = self.start.elapsed().as_secs_f64();
        let violations = self.violations.lock().unwrap().clone();
        let nontrivial = self.nontrivial.lock().unwrap().len() as u64
            + self.enum_nontrivial.load(Ordering::Relaxed);
        let sections: Vec<Value> = self
            .sections
            .lock()
            .unwrap()
            .iter()
            .map(|s| json!({"name": s.name, "evaluations": s.evaluations, "nontrivial": s.nontrivial, "exhaustive": s.exhaustive}))
            .collect();
        let mut samples = self.samples.lock().unwrap().clone();
        samples.truncate(12);
        if samples.is_empty() {
            samples.push(json!("no case generated"));
        }
        let mut coverage = json!({
            "evaluations": self.evaluations.load(Ordering::Relaxed),
            "distinct_nontrivial": nontrivial,
            "rule": self.rule.lock().unwrap().clone(),
            "samples": samples,
            "classes": *self.classes.lock().unwrap(),
            "sections": sections,
            "excluded_known": self.excluded_known.load(Ordering::Relaxed),
            "sub_evaluations": self.subcases.load(Ordering::Relaxed),
            "exhaustive": self.all_exhaustive.load(Ordering::Relaxed) && !self.sections.lock().unwrap().is_empty(),
            "workers": WORKERS,
        });
        for (k, v) in self.extra.lock().unwrap().iter() {
            coverage[k] = v.clone();
        }
        let ev = json!({
            "property_id": self.prop, "tier": self.tier.name(), "seed": self.seed, "level": self.level,
            "coverage": coverage,
            "assumptions": *self.assumptions.lock().unwrap(),
            "wall_s": (wall * 1000.0).round() / 1000.0,
            "violations": violations.len(),
        });
        let dir = self.out_dir().join("evidence");
        let _ = std::fs::create_dir_all(&dir);
        let path = dir.join(format!("{}.json", self.prop));
        if let Err(e) = std::fs::write(&path, serde_json::to_string_pretty(&ev).unwrap()) {
            eprintln!("cannot write evidence {}: {}", path.display(), e);
            return 2;
        }
        for (i, k) in self.known.iter().enumerate() {
            let hit = self.known_hit.lock().unwrap().contains(&i);
            println!(
                "KNOWN-FINDING: property={} signature={} {}{}",
                self.prop,
                k.signature,
                k.text,
                if hit {
                    ""
                } else {
                    " (not reproduced in this run)"
                }
            );
        }
        if !violations.is_empty() {
            for (path, msg) in &violations {
                println!("VIOLATION property={} replay={}", self.prop, path);
                println!("  {}", msg.lines().next().unwrap_or(""));
            }
            return 1;
        }
        let deg = self.degenerate.lock().unwrap();
        let inc = self.inconclusive.lock().unwrap();
        if !deg.is_empty() || !inc.is_empty() {
            for d in deg.iter() {
                println!(
                    "INCONCLUSIVE property={} generator degenerate: {}",
                    self.prop, d
                );
            }
            for d in inc.iter() {
                println!("INCONCLUSIVE property={} {}", self.prop, d);
            }
            return 2;
        }
        println!(
            "OK property={} tier={} seed={} evaluations={} distinct_nontrivial={} wall_s={:.1}",
            self.prop,
            self.tier.name(),
            self.seed,
            self.evaluations.load(Ordering::Relaxed),
            nontrivial,
            wall
        );
        0
    }
}

fn sample_json<C: Serialize>(section: &str, case: &C, pass: &Pass) -> Value {
    let mut v = serde_json::to_value(case).unwrap_or(Value::Null);
    truncate_json(&mut v);
    json!({"section": section, "classes": pass.classes, "case": v})
}

/// shorten long strings / arrays so that evidence files stay readable
pub fn truncate_json(v: &mut Value) {
    match v {
        Value::String(s) => {
            if s.len() > 160 {
                let total = s.len();
                let mut cut = 120;
                while !s.is_char_boundary(cut) {
                    cut -= 1;
                }
                s.truncate(cut);
                s.push_str(&format!("...(+{} chars)", total - cut));
            }
        }
        Value::Array(a) => {
            if a.len() > 24 {
                let total = a.len();
                a.truncate(20);
                a.push(Value::String(format!("...(+{} items)", total - 20)));
            }
            for x in a.iter_mut() {
                truncate_json(x);
            }
        }
        Value::Object(o) => {
            for (_, x) in o.iter_mut() {
                truncate_json(x);
            }
        }
        _ => {}
    }
}

/// helper for property modules: deserialize a replay case
pub fn case_from<C: DeserializeOwned>(v: &Value) -> Option<C> {
    serde_json::from_value(v.clone()).ok()
}

/// Deterministic sampling of a strategy inside an enumeration (all randomness stays in proptest's
/// generators); a failing sample is shrunk with proptest's simplify/complicate protocol.
pub struct Sampler {
    runner: TestRunner,
}
impl Sampler {
    pub fn new(seed: u64) -> Self {
        let mut cfg = Config::default();
        cfg.failure_persistence = None;
        cfg.rng_seed = RngSeed::Fixed(seed);
        Sampler {
            runner: TestRunner::new(cfg),
        }
    }
    pub fn sample<C: Debug, S: Strategy<Value = C>>(&mut self, strat: &S) -> C {
        use proptest::strategy::ValueTree;
        strat
            .new_tree(&mut self.runner)
            .expect("strategy without rejection")
            .current()
    }
    /// sample one case and check it; on failure return the shrunk case and its violation
    pub fn check<C: Debug, S: Strategy<Value = C>>(
        &mut self,
        strat: &S,
        check: &dyn Fn(&C) -> CheckResult,
    ) -> Result<(C, Pass), (C, Violation)> {
        use proptest::strategy::ValueTree;
        let mut tree = strat
            .new_tree(&mut self.runner)
            .expect("strategy without rejection");
        let first = tree.current();
        match check(&first) {
            Ok(p) => Ok((first, p)),
            Err(v0) => {
                let mut best = (first, v0);
                let mut iters = 0;
                if tree.simplify() {
                    loop {
                        iters += 1;
                        if iters > 5000 {
                            break;
                        }
                        let cur = tree.current();
                        match check(&cur) {
                            Err(v) => {
                                best = (cur, v);
                                if !tree.simplify() {
                                    break;
                                }
                            }
                            Ok(_) => {
                                if !tree.complicate() {
                                    break;
                                }
                            }
                        }
                    }
                }
                Err(best)
            }
        }
    }
}
