//! dltverif — property-based testing / fuzzing machinery for the dlt-core properties C01..C19.
pub mod evalserver;
pub mod model;
pub mod oracle;
pub mod refcodec;
pub mod util;
pub mod verdict;

#[cfg(feature = "runner")]
pub mod gen;
#[cfg(feature = "runner")]
pub mod props;
#[cfg(feature = "runner")]
pub mod runner;
