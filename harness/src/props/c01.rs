//! C01 — serialise-then-parse returns the identical message and consumes it exactly.
//! Oracle: round trip (structural, floats by bits) + suffix metamorphic relation.
use crate::gen::message as g;
use crate::model::*;
use crate::runner::*;
use crate::util::{guard, hex_short};
use crate::viol;
use dlt_core::parse::{dlt_message, ParsedMessage};
use proptest::prelude::*;
use serde::{Deserialize, Serialize};
use serde_json::Value as Json;

#[derive(Debug, Clone, Hash, PartialEq, Eq, Serialize, Deserialize)]
pub struct Case {
    pub msg: RMsg,
    #[serde(with = "crate::util::hexser")]
    pub suffix: Vec<u8>,
    #[serde(with = "crate::util::hexser")]
    pub suffix2: Vec<u8>,
}

/// parse `bytes ++ suffix` and demand exactly (`m`, `suffix`)
fn parse_back(
    m: &dlt_core::dlt::Message,
    bytes: &[u8],
    suffix: &[u8],
    storage: bool,
    kind: &str,
) -> Result<(), Violation> {
    let mut buf = bytes.to_vec();
    buf.extend_from_slice(suffix);
    let res = guard(|| {
        dlt_message(&buf, None, storage).map(|(rest, pm)| (rest.len(), rest.as_ptr() as usize, pm))
    })
    .map_err(|p| Violation::from_panic("dlt_message on serialised message", &p))?;
    match res {
        Ok((rest_len, rest_ptr, ParsedMessage::Item(m2))) => {
            msg_eq_bits(m, &m2).map_err(|d| {
                viol!(
                    format!("roundtrip:{}:message-differs", kind),
                    "parsed message differs from the original: {}\n  bytes={}",
                    d,
                    hex_short(bytes)
                )
            })?;
            let end = buf.as_ptr() as usize + buf.len();
            if rest_len != suffix.len() || rest_ptr + rest_len != end {
                return Err(viol!(
                    format!("roundtrip:{}:remainder", kind),
                    "remainder has {} bytes, expected the {} bytes that followed the {}-byte message (bytes={})",
                    rest_len, suffix.len(), bytes.len(), hex_short(bytes)
                ));
            }
            Ok(())
        }
        Ok((_, _, other)) => Err(viol!(
            format!("roundtrip:{}:not-item", kind),
            "parser returned {:?} for a serialised message (bytes={})",
            other,
            hex_short(bytes)
        )),
        Err(e) => Err(viol!(
            format!("roundtrip:{}:error", kind),
            "parser failed with {:?} on a serialised message: {} (bytes={})",
            e,
            short_dbg(m),
            hex_short(bytes)
        )),
    }
}

pub fn check(c: &Case) -> CheckResult {
    let m = to_crate(&c.msg);
    let kind = c.msg.payload_kind();
    let bytes =
        guard(|| m.as_bytes()).map_err(|p| Violation::from_panic("Message::as_bytes", &p))?;
    let storage = c.msg.storage.is_some();
    // history independence: whatever was parsed before on this thread — here a damaged copy of the message (argument
    // count raised, last byte cut off) whose parse fails half-way — must not influence the result
    if c.suffix.len() % 3 == 1 {
        let mut damaged = bytes.clone();
        let s = if storage { 16 } else { 0 };
        if c.msg.htyp & UEH != 0 && damaged.len() > s + crate::model::std_header_len(c.msg.htyp) + 2
        {
            let noar_at = s + crate::model::std_header_len(c.msg.htyp) + 1;
            damaged[noar_at] = damaged[noar_at].wrapping_add(1);
        }
        let _ = guard(|| dlt_message(&damaged, None, storage).map(|(r, _)| r.len()));
        let _ = guard(|| {
            dlt_message(&damaged[..damaged.len().saturating_sub(1)], None, storage)
                .map(|(r, _)| r.len())
        });
    }
    // the same for the writer: an ill-formed message value (variable-info flag without a name, a name without the flag, a
    // value of another kind) serialised a moment ago on this thread must not influence how this one is written
    let bytes = if c.suffix.len() % 3 == 2 {
        let mut bad = m.clone();
        if let dlt_core::dlt::PayloadContent::Verbose(args) = &mut bad.payload {
            for (i, a) in args.iter_mut().enumerate() {
                match i % 3 {
                    0 => {
                        a.type_info.has_variable_info = !a.type_info.has_variable_info;
                    }
                    1 => {
                        a.name = if a.name.is_some() {
                            None
                        } else {
                            Some("n".to_string())
                        };
                    }
                    _ => {
                        a.value = dlt_core::dlt::Value::Bool(1);
                    }
                }
            }
        }
        let _ = guard(|| bad.as_bytes().len());
        let again =
            guard(|| m.as_bytes()).map_err(|p| Violation::from_panic("Message::as_bytes", &p))?;
        if again != bytes {
            return Err(viol!(
                format!("roundtrip:{}:writer-history", kind),
                "the same message serialises differently after an ill-formed message was serialised on this thread: {} vs {}",
                hex_short(&again), hex_short(&bytes)
            ));
        }
        again
    } else {
        bytes
    };
    // and a well-formed neighbour: the same message in the other byte order, serialised right after this one on the same
    // thread, must round-trip as well and must not change how this one is written afterwards
    if c.suffix2.len() % 2 == 1 {
        let mut twin_model = c.msg.clone();
        twin_model.htyp ^= MSBF;
        let twin = to_crate(&twin_model);
        let tb = guard(|| twin.as_bytes())
            .map_err(|p| Violation::from_panic("Message::as_bytes", &p))?;
        parse_back(&twin, &tb, &c.suffix, storage, kind)?;
        let again =
            guard(|| m.as_bytes()).map_err(|p| Violation::from_panic("Message::as_bytes", &p))?;
        if again != bytes {
            return Err(viol!(
                format!("roundtrip:{}:writer-history", kind),
                "the same message serialises differently after its other-byte-order twin was serialised on this thread: {} vs {}",
                hex_short(&again), hex_short(&bytes)
            ));
        }
    }
    parse_back(&m, &bytes, &c.suffix, storage, kind)?;
    if c.suffix2 != c.suffix {
        parse_back(&m, &bytes, &c.suffix2, storage, kind)?;
    }
    let payload_nonempty = c.msg.len as usize > c.msg.headers_len();
    let mut pass = Pass::new(payload_nonempty && !c.suffix.is_empty());
    pass.classes = g::classes_of(&c.msg);
    Ok(pass.class_if(!c.suffix.is_empty(), "suffix"))
}

pub fn strategy() -> impl Strategy<Value = Case> {
    (
        g::message(g::MsgParams::default()),
        g::suffix(),
        g::suffix(),
    )
        .prop_map(|(msg, suffix, suffix2)| Case {
            msg,
            suffix,
            suffix2,
        })
}

pub fn run(run: &Run) {
    run.rule(
        "cases = (well-formed message built by construction over all header-flag combinations, message-type families, payload kinds, argument \
         kinds/widths/codings, boundary lengths; suffix; second suffix); message is serialised by the crate, parsed back from bytes++suffix; \
         non-trivial = non-empty payload and non-empty suffix; distinct by the whole case",
    );
    run.assume("generator soundness: ids <= 4 bytes without NUL, names/units/strings without NUL, value variant matches type info, NOAR/verbose/LEN consistent (DESIGN.md 3.1)");
    run.regressions(&replay);
    run.random(
        "roundtrip",
        run.cases(300_000, 4_000_000),
        0.3,
        strategy,
        check,
    );
}

pub fn replay(_section: &str, case: &Json) -> Option<CheckResult> {
    case_from::<Case>(case).map(|c| check(&c))
}
