//! C13 — non-verbose argument construction decodes packed fields in order or refuses.
use crate::gen::message as g;
use crate::model::*;
use crate::runner::*;
use crate::util::{guard, hex_short};
use crate::viol;
use dlt_core::dlt::Endianness;
use dlt_core::parse::construct_arguments;
use proptest::collection::vec;
use proptest::prelude::*;
use serde::{Deserialize, Serialize};
use serde_json::Value as Json;

#[derive(Debug, Clone, Hash, PartialEq, Eq, Serialize, Deserialize)]
pub struct Field {
    pub ty: RType,
    pub val: RVal,
    /// strings: append a NUL terminator inside the declared length
    pub terminated: bool,
}
#[derive(Debug, Clone, Hash, PartialEq, Eq, Serialize, Deserialize)]
pub struct Case {
    pub fields: Vec<Field>,
    pub big_endian: bool,
    #[serde(with = "crate::util::hexser")]
    pub trailing: Vec<u8>,
    /// make string number k (mod count) invalid UTF-8
    pub corrupt: Option<u8>,
    /// fixed-point kinds appended for the no-panic clause only
    pub with_fixed_point: Option<RKind>,
}

/// reference packing of one field (written from the statement: fields back to back, strings/raw with a 16-bit length)
pub fn pack(f: &Field, be: bool, o: &mut Vec<u8>) {
    let put = |o: &mut Vec<u8>, v: u128, n: usize| {
        let le = v.to_le_bytes();
        let mut d = le[..n].to_vec();
        if be {
            d.reverse();
        }
        o.extend(d);
    };
    match (&f.ty.kind, &f.val) {
        (RKind::Bool, RVal::Bool(b)) => o.push(*b),
        (RKind::Sint(b), RVal::I(v)) => put(o, *v as u128, *b as usize / 8),
        (RKind::Uint(b), RVal::U(v)) => put(o, *v, *b as usize / 8),
        (RKind::Float(32), RVal::F32(b)) => put(o, *b as u128, 4),
        (RKind::Float(_), RVal::F64(b)) => put(o, *b as u128, 8),
        (RKind::Str, RVal::Str(s)) => {
            let mut d = s.as_bytes().to_vec();
            if f.terminated {
                d.push(0);
            }
            put(o, d.len() as u128, 2);
            o.extend(d);
        }
        (RKind::Raw, RVal::Raw(d)) => {
            put(o, d.len() as u128, 2);
            o.extend_from_slice(d);
        }
        _ => {}
    }
}

#[derive(Debug, Clone, Hash, PartialEq, Eq, Serialize, Deserialize)]
pub struct RawCase {
    pub types: Vec<RType>,
    pub big_endian: bool,
    #[serde(with = "crate::util::hexser")]
    pub data: Vec<u8>,
}
pub fn check_raw(c: &RawCase) -> CheckResult {
    crate::oracle::c13_decode(&c.types, c.big_endian, &c.data)
}

pub fn check(c: &Case) -> CheckResult {
    let be = c.big_endian;
    let e = if be {
        Endianness::Big
    } else {
        Endianness::Little
    };
    let types: Vec<_> = c.fields.iter().map(|f| type_to_crate(&f.ty)).collect();
    let mut exact = vec![];
    for f in &c.fields {
        pack(f, be, &mut exact);
    }
    let mut pass = Pass::new(false);
    let call = |data: &[u8], what: &str| {
        guard(|| construct_arguments(e, &types, data)).map_err(|p| {
            Violation::from_panic(
                &format!(
                    "construct_arguments({:?}, {} types) on {} payload {}",
                    e,
                    types.len(),
                    what,
                    hex_short(data)
                ),
                &p,
            )
        })
    };
    // exact and with trailing bytes
    let mut with_trailing = exact.clone();
    with_trailing.extend_from_slice(&c.trailing);
    for (data, what) in [(&exact, "exact"), (&with_trailing, "trailing")] {
        let args = match call(data, what)? {
            Ok(a) => a,
            Err(err) => {
                return Err(viol!(
                    format!("construct:{}:refused", what),
                    "construct_arguments refused a {} payload: {:?}; types={:?} payload={}",
                    what,
                    err,
                    types,
                    hex_short(data)
                ))
            }
        };
        if args.len() != c.fields.len() {
            return Err(viol!(
                "construct:count",
                "{} arguments for {} types",
                args.len(),
                c.fields.len()
            ));
        }
        for (i, (a, f)) in args.iter().zip(c.fields.iter()).enumerate() {
            let label = g::kind_label(f.ty.kind);
            if a.type_info != types[i] || a.name.is_some() || a.unit.is_some() {
                return Err(viol!(
                    format!("construct:{}:type-info", label),
                    "argument {} carries type {:?} / name {:?} / unit {:?}, given type {:?}",
                    i,
                    a.type_info,
                    a.name,
                    a.unit,
                    types[i]
                ));
            }
            let got = value_from_crate(&a.value);
            let bits_ok = match f.ty.kind {
                RKind::Sint(b) | RKind::Uint(b) | RKind::Float(b) => value_bits(&a.value) == b,
                _ => true,
            };
            let same = match (&got, &f.val) {
                (RVal::Str(g), RVal::Str(w)) => {
                    g == w || (f.terminated && g.strip_suffix('\0') == Some(w.as_str()))
                }
                (g, w) => g == w,
            };
            if !same || !bits_ok {
                return Err(viol!(
                    format!("construct:{}:{}:value", label, if be { "be" } else { "le" }),
                    "argument {} ({:?}, {}) decoded to {:?}, expected {:?}; payload={}",
                    i,
                    f.ty.kind,
                    if be { "big endian" } else { "little endian" },
                    a.value,
                    f.val,
                    hex_short(data)
                ));
            }
        }
    }
    // every truncation must be refused
    for cut in 0..exact.len() {
        pass.subcases += 1;
        if let Ok(a) = call(&exact[..cut], "truncated")? {
            return Err(viol!("construct:truncated-accepted", "payload truncated to {} of {} bytes was accepted ({} arguments for {} types); types={:?} payload={}", cut, exact.len(), a.len(), types.len(), types, hex_short(&exact)));
        }
    }
    // a string that is not valid UTF-8 must be refused
    let strings: Vec<usize> = c
        .fields
        .iter()
        .enumerate()
        .filter(
            |(_, f)| matches!((&f.ty.kind, &f.val), (RKind::Str, RVal::Str(s)) if !s.is_empty()),
        )
        .map(|(i, _)| i)
        .collect();
    if let (Some(k), false) = (c.corrupt, strings.is_empty()) {
        let target = strings[k as usize % strings.len()];
        let mut data = vec![];
        let (mut start, mut len) = (0, 0);
        for (i, f) in c.fields.iter().enumerate() {
            let s0 = data.len();
            pack(f, be, &mut data);
            if i == target {
                start = s0 + 2;
                len = match &f.val {
                    RVal::Str(s) => s.len(),
                    _ => 0,
                };
            }
        }
        // 0xFF never occurs in UTF-8: put it at EVERY byte position of the string in turn (valid prefixes of every
        // length, multi-byte characters cut at every point)
        for pos in 0..len {
            let old = data[start + pos];
            data[start + pos] = 0xFF;
            pass.subcases += 1;
            if let Ok(a) = call(&data, "invalid-utf8")? {
                return Err(viol!("construct:invalid-utf8-accepted", "a string field that is not valid UTF-8 (0xFF at byte {} of {}) was accepted: {:?}; payload={}", pos, len, a.get(target).map(|x| &x.value), hex_short(&data)));
            }
            data[start + pos] = old;
        }
        pass.classes.push("invalid-utf8-refused");
        if len > 64 {
            pass.classes.push("invalid-utf8-in-long-string");
        }
    }
    // fixed-point kinds: the statement lists no decoding for them, only "no panic"
    if let Some(k) = c.with_fixed_point {
        let mut t2 = types.clone();
        t2.push(type_to_crate(&RType {
            kind: k,
            vari: false,
            trai: false,
            scod: 0,
        }));
        let mut data = with_trailing.clone();
        data.extend_from_slice(&[
            1, 2, 3, 4, 5, 6, 7, 8, 9, 10, 11, 12, 13, 14, 15, 16, 17, 18, 19, 20, 21, 22, 23, 24,
        ]);
        for cut in [
            data.len(),
            exact.len(),
            exact.len() + 3,
            exact.len() + 8,
            exact.len() + 12,
        ] {
            let cut = cut.min(data.len());
            guard(|| construct_arguments(e, &t2, &data[..cut]))
                .map_err(|p| {
                    Violation::from_panic(
                        &format!("construct_arguments with fixed-point type {:?}", k),
                        &p,
                    )
                })?
                .ok();
        }
        pass.classes.push("fixed-point-no-panic");
    }
    let multibyte = c.fields.iter().any(|f| {
        matches!(f.ty.kind, RKind::Sint(b) | RKind::Uint(b) | RKind::Float(b) if b > 8)
            || matches!(f.ty.kind, RKind::Str | RKind::Raw)
    });
    pass.nontrivial = c.fields.len() >= 2 && multibyte;
    for f in &c.fields {
        pass.classes.push(g::kind_label(f.ty.kind));
    }
    pass.classes
        .push(if be { "big-endian" } else { "little-endian" });
    pass.classes.sort();
    pass.classes.dedup();
    Ok(pass)
}

fn field() -> BoxedStrategy<Field> {
    let kinds: Vec<RKind> = g::ALL_KINDS
        .iter()
        .cloned()
        .chain([RKind::Raw])
        .filter(|k| !matches!(k, RKind::SintFx(_) | RKind::UintFx(_)))
        .collect();
    (
        prop::sample::select(kinds),
        any::<bool>(),
        any::<bool>(),
        g::scod(),
        any::<bool>(),
    )
        .prop_flat_map(|(kind, vari, trai, scod, terminated)| {
            g::value_for(kind, 300).prop_map(move |val| Field {
                ty: RType {
                    kind,
                    vari,
                    trai,
                    scod,
                },
                val,
                terminated,
            })
        })
        .boxed()
}
fn small_field() -> BoxedStrategy<Field> {
    let kinds: Vec<RKind> = g::ALL_KINDS
        .iter()
        .cloned()
        .chain([RKind::Raw])
        .filter(|k| !matches!(k, RKind::SintFx(_) | RKind::UintFx(_)))
        .collect();
    (
        prop::sample::select(kinds),
        any::<bool>(),
        g::scod(),
        any::<bool>(),
    )
        .prop_flat_map(|(kind, vari, scod, terminated)| {
            g::value_for(kind, 6).prop_map(move |val| Field {
                ty: RType {
                    kind,
                    vari,
                    trai: false,
                    scod,
                },
                val,
                terminated,
            })
        })
        .boxed()
}
pub fn strategy() -> impl Strategy<Value = Case> {
    (
        // mostly up to a dozen signals; sometimes a few hundred (more than fit one byte of count)
        prop_oneof![60 => vec(field(), 0..12), 1 => vec(small_field(), 250..300)],
        any::<bool>(),
        prop_oneof![1 => Just(vec![]), 2 => vec(any::<u8>(), 1..20)],
        prop_oneof![1 => Just(None), 2 => any::<u8>().prop_map(Some)],
        prop_oneof![3 => Just(None), 1 => prop::sample::select(vec![RKind::SintFx(32), RKind::SintFx(64), RKind::UintFx(32), RKind::UintFx(64)]).prop_map(Some)],
    )
        .prop_map(|(fields, big_endian, trailing, corrupt, with_fixed_point)| Case { fields, big_endian, trailing, corrupt, with_fixed_point })
}

pub fn raw_strategy() -> impl Strategy<Value = RawCase> {
    let free = (
        vec(field().prop_map(|f| f.ty), 0..8),
        any::<bool>(),
        prop_oneof![
            vec(any::<u8>(), 0..40),
            vec(
                prop::sample::select(vec![0u8, 1, 2, 3, 4, 0x61, 0xC3, 0xA9, 0xFF]),
                0..40
            )
        ],
    )
        .prop_map(|(types, big_endian, data)| RawCase {
            types,
            big_endian,
            data,
        });
    // a payload that is valid UTF-8 as a whole while the string field's length prefix cuts a multi-byte character in
    // two (the rest of the character lands in the following fields / trailing bytes): the string itself is invalid
    let split_char = (
        g::scod(),
        any::<bool>(),
        vec(
            prop::sample::select(vec!["a", "é", "€", "𝄞", "z", "ß"]),
            1..12,
        ),
        any::<u16>(),
        vec(
            prop::sample::select(vec![
                RKind::Uint(8),
                RKind::Sint(8),
                RKind::Bool,
                RKind::Uint(16),
            ]),
            0..4,
        ),
        any::<bool>(),
    )
        .prop_map(|(scod, big_endian, pieces, cut, tail_kinds, vari)| {
            let text: String = pieces.concat();
            let k = (cut as usize * (text.len() + 1)) >> 16; // 0..=len, may or may not fall on a character boundary
            let mut data = if big_endian {
                (k as u16).to_be_bytes().to_vec()
            } else {
                (k as u16).to_le_bytes().to_vec()
            };
            // the length prefix itself must be valid UTF-8 too: lengths below 128 give 00 xx / xx 00
            data.extend_from_slice(text.as_bytes());
            let mut types = vec![RType {
                kind: RKind::Str,
                vari,
                trai: false,
                scod,
            }];
            types.extend(tail_kinds.into_iter().map(|kind| RType {
                kind,
                vari: false,
                trai: false,
                scod: 0,
            }));
            RawCase {
                types,
                big_endian,
                data,
            }
        });
    // relations between neighbouring fields: the same bytes in two length-prefixed fields of different kinds (raw data is
    // never validated, a string always is), and a 16-bit integer in front of a string / raw field whose value is the
    // number of bytes that follow while the field's own length prefix is missing (the payload is then too short)
    let content = prop_oneof![vec(any::<u8>(), 1..8), vec(prop::sample::select(vec![0x61u8, 0xC3, 0x28, 0xA9, 0xFF, 0x00, 0xE2, 0x82]), 1..8)];
    let dyn_kind = || prop::sample::select(vec![RKind::Raw, RKind::Str]);
    let twins = (dyn_kind(), dyn_kind(), content.clone(), vec(prop::sample::select(vec![RKind::Uint(8), RKind::Bool, RKind::Uint(16)]), 0..3), any::<bool>(), g::scod()).prop_map(|(k1, k2, c, between, big_endian, scod)| {
        let p16 = |d: &mut Vec<u8>, v: u16| d.extend_from_slice(&if big_endian { v.to_be_bytes() } else { v.to_le_bytes() });
        let plain = |kind| RType { kind, vari: false, trai: false, scod };
        let mut types = vec![plain(k1)];
        let mut data = vec![];
        p16(&mut data, c.len() as u16);
        data.extend_from_slice(&c);
        for k in between {
            types.push(plain(k));
            data.extend(std::iter::repeat(1u8).take(if k == RKind::Uint(16) { 2 } else { 1 }));
        }
        types.push(plain(k2));
        p16(&mut data, c.len() as u16);
        data.extend_from_slice(&c);
        RawCase { types, big_endian, data }
    });
    let missing_prefix = (dyn_kind(), content, any::<bool>(), prop::bool::weighted(0.3)).prop_map(|(k, c, big_endian, lead)| {
        let p16 = |d: &mut Vec<u8>, v: u16| d.extend_from_slice(&if big_endian { v.to_be_bytes() } else { v.to_le_bytes() });
        let plain = |kind| RType { kind, vari: false, trai: false, scod: 0 };
        let mut types = vec![];
        let mut data = vec![];
        if lead {
            types.push(plain(RKind::Uint(8)));
            data.push(9);
        }
        types.push(plain(RKind::Uint(16)));
        p16(&mut data, c.len() as u16);
        types.push(plain(k));
        data.extend_from_slice(&c);
        RawCase { types, big_endian, data }
    });
    // the payload starts with the type-info word of its own first signal (a counter that happens to pass that value)
    let own_word = (prop::sample::select(vec![RKind::Uint(32), RKind::Sint(32), RKind::Float(32), RKind::Uint(64), RKind::Str]), any::<bool>(), g::scod(), any::<bool>(), vec(any::<u8>(), 0..6)).prop_map(|(kind, vari, scod, big_endian, tail)| {
        let ty = RType { kind, vari, trai: false, scod };
        let w = crate::refcodec::type_word(&ty);
        let mut data = if big_endian { w.to_be_bytes().to_vec() } else { w.to_le_bytes().to_vec() };
        data.extend_from_slice(&[0, 0, 0, 0]);
        data.extend(tail);
        RawCase { types: vec![ty, RType { kind: RKind::Uint(8), vari: false, trai: false, scod: 0 }], big_endian, data }
    });
    // a later string field whose bytes are a prefix of an earlier string field (cut anywhere, also inside a character)
    let prefix_twins = (vec(prop::sample::select(vec!["Z", "ü", "r", "€", "𝄞", "i", "ß"]), 1..8), any::<u16>(), vec(prop::sample::select(vec![RKind::Uint(8), RKind::Raw, RKind::Bool]), 0..3), any::<bool>(), g::scod()).prop_map(|(pieces, cut, between, big_endian, scod)| {
        let text: String = pieces.concat();
        let k = (cut as usize * (text.len() + 1)) >> 16;
        let p16 = |d: &mut Vec<u8>, v: u16| d.extend_from_slice(&if big_endian { v.to_be_bytes() } else { v.to_le_bytes() });
        let plain = |kind| RType { kind, vari: false, trai: false, scod };
        let mut types = vec![plain(RKind::Str)];
        let mut data = vec![];
        p16(&mut data, text.len() as u16);
        data.extend_from_slice(text.as_bytes());
        for kd in between {
            types.push(plain(kd));
            match kd {
                RKind::Raw => {
                    p16(&mut data, 2);
                    data.extend_from_slice(&[0xC3, 0x28]);
                }
                _ => data.push(1),
            }
        }
        types.push(plain(RKind::Str));
        p16(&mut data, k as u16);
        data.extend_from_slice(&text.as_bytes()[..k]);
        RawCase { types, big_endian, data }
    });
    prop_oneof![10 => free, 2 => split_char, 1 => twins, 1 => missing_prefix, 1 => own_word, 1 => prefix_twins]
}

/// Block b of the trailing-length sweep: byte order x {string, raw} x closing-field length 0..=5 x 3 list prefixes;
/// every trailing length 0..=1300 behind the closing field ("ignoring trailing bytes" for every amount, not a sample).
fn trailing_case(block: u64, trailing: usize) -> RawCase {
    let big_endian = block % 2 == 1;
    let raw = (block / 2) % 2 == 1;
    let len = ((block / 4) % 6) as usize;
    let prefix = (block / 24) % 3;
    let plain = |kind| RType {
        kind,
        vari: false,
        trai: false,
        scod: 0,
    };
    let mut types = vec![];
    let mut data = vec![];
    let put16 = |d: &mut Vec<u8>, v: u16| {
        d.extend_from_slice(&if big_endian {
            v.to_be_bytes()
        } else {
            v.to_le_bytes()
        })
    };
    match prefix {
        1 => {
            types.push(plain(RKind::Uint(16)));
            put16(&mut data, 0x1234);
        }
        2 => {
            types.push(plain(RKind::Bool));
            data.push(1);
            types.push(plain(RKind::Str));
            put16(&mut data, 2);
            data.extend_from_slice(b"ab");
        }
        _ => {}
    }
    types.push(plain(if raw { RKind::Raw } else { RKind::Str }));
    put16(&mut data, len as u16);
    data.extend(std::iter::repeat(b'x').take(len));
    data.extend((0..trailing).map(|i| b'A' + (i % 23) as u8));
    RawCase {
        types,
        big_endian,
        data,
    }
}
pub const TRAILING_BLOCKS: u64 = 72;
fn trailing_block(block: u64) -> BlockReport {
    let mut rep = BlockReport::default();
    for t in 0..=1300usize {
        let c = trailing_case(block, t);
        rep.evaluations += 1;
        match check_raw(&c) {
            Ok(_) => rep.nontrivial += (t > 0) as u64,
            Err(v) => {
                if rep.violation.is_none() {
                    rep.violation = Some((serde_json::json!(c), v));
                }
            }
        }
    }
    rep.classes.push(("trailing-length-sweep", 1301));
    if block == 30 {
        rep.sample = Some(
            serde_json::json!({"block": block, "case_at_trailing_7": trailing_case(block, 7)}),
        );
    }
    rep
}

pub fn run(run: &Run) {
    run.rule(
        "cases = list of 0..12 supported signal types (bool, s/u 8..128, float 32/64, string, raw; arbitrary flags/coding) with values, byte order, \
         trailing bytes; payload = reference packing (fields back to back in the stated byte order, strings/raw behind a 16-bit length); checked: exact \
         and exact+trailing decode to one argument per type with the given type info and bit-equal value (strings modulo one final NUL), EVERY proper \
         truncation is refused (enumerated, counted in sub_evaluations), a non-UTF-8 string is refused, fixed-point kinds never panic; non-trivial = >= \
         2 types incl. a multi-byte numeric or a string/raw; distinct by the whole case. Section trailing-length-sweep: EVERY trailing length \
         0..=1300 behind a closing string/raw field of 0..=5 bytes (both byte orders, three list prefixes), judged by the reference decode",
    );
    run.assume("strings are generated without NUL except an optional final terminator; whether the terminator is kept in the value is left open by the statement");
    run.regressions(&replay);
    run.random(
        "construct",
        run.cases(300_000, 4_000_000),
        0.5,
        strategy,
        check,
    );
    run.enumerate(
        "trailing-length-sweep",
        TRAILING_BLOCKS,
        true,
        trailing_block,
    );
    // arbitrary payloads (not produced by the reference packing): verdict and values must equal the reference decode
    run.random(
        "arbitrary-payloads",
        run.cases(600_000, 8_000_000),
        0.3,
        raw_strategy,
        check_raw,
    );
}

pub fn replay(section: &str, case: &Json) -> Option<CheckResult> {
    if section.starts_with("fuzz-") {
        return super::fuzz_replay("C13", section, case);
    }
    if let (true, Some(b)) = (section == "trailing-length-sweep", case.get("enum_block").and_then(|b| b.as_u64())) {
        let rep = trailing_block(b);
        return Some(match rep.violation {
            Some((_, v)) => Err(v),
            None => Ok(Pass::new(true).class("trailing-length-sweep")),
        });
    }
    if section == "arbitrary-payloads"
        || section == "fuzz-args"
        || section == "trailing-length-sweep"
    {
        return case_from::<RawCase>(case).map(|c| check_raw(&c));
    }
    case_from::<Case>(case).map(|c| check(&c))
}
