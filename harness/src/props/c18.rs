//! C18 — fixed-point arguments convert to quantization x value + offset without panicking.
//! Oracle: wide arithmetic (f64 product truncated, i128 sum) inside the window the statement fixes.
use crate::gen::message as g;
use crate::model::*;
use crate::runner::*;
use crate::util::guard;
use crate::viol;
use dlt_core::dlt::*;
use proptest::prelude::*;
use serde::{Deserialize, Serialize};
use serde_json::Value as Json;

#[derive(Debug, Clone, Hash, PartialEq, Eq, Serialize, Deserialize)]
pub struct Case {
    pub kind: RKind,
    /// (quantization bits, offset, offset stored as 64 bit)
    pub fixp: Option<(u32, i64, bool)>,
    /// value variant width in bits (may deliberately differ from the kind's width)
    pub vbits: u8,
    pub val: RVal,
    /// parts of the argument the conversion has nothing to do with: (variable-info flag, name, unit, trace-info flag, coding)
    #[serde(default)]
    pub extras: Option<(bool, Option<String>, Option<String>, bool, u8)>,
}

fn build(c: &Case) -> Argument {
    let vkind = match (&c.val, c.vbits) {
        (RVal::U(_), b) => RKind::Uint(b),
        (RVal::I(_), b) => RKind::Sint(b),
        _ => c.kind,
    };
    let (vari, name, unit, trai, scod) = c.extras.clone().unwrap_or((false, None, None, false, 0));
    Argument {
        type_info: type_to_crate(&RType {
            kind: c.kind,
            vari,
            trai,
            scod,
        }),
        name,
        unit,
        fixed_point: c.fixp.map(|(q, off, is64)| FixedPoint {
            quantization: f32::from_bits(q),
            offset: if is64 {
                FixedPointValue::I64(off)
            } else {
                FixedPointValue::I32(off as i32)
            },
        }),
        value: value_to_crate(vkind, &c.val),
    }
}

pub fn check(c: &Case) -> CheckResult {
    let arg = build(c);
    let got = guard(|| arg.to_real_value())
        .map_err(|p| Violation::from_panic(&format!("to_real_value of {:?}", arg), &p))?;
    let is_fx = matches!(c.kind, RKind::SintFx(_) | RKind::UintFx(_));
    // the value the argument really carries: the model value cut to the variant's width
    let int_val: Option<i128> = match (&c.val, c.vbits) {
        (RVal::U(v), b @ (8 | 16 | 32 | 64)) => Some((*v & ((1u128 << b) - 1)) as i128),
        (RVal::I(v), b @ (8 | 16 | 32 | 64)) => Some((*v << (128 - b as u32)) >> (128 - b as u32)),
        _ => None,
    };
    let is_int = matches!(c.val, RVal::U(_) | RVal::I(_));
    if got.is_some() && !(is_fx && c.fixp.is_some() && is_int) {
        return Err(viol!(
            "some-for-non-fixed-point",
            "to_real_value returned {:?} although kind={:?} fixed_point={:?} value={:?}",
            got,
            c.kind,
            c.fixp,
            c.val
        ));
    }
    let mut pass = Pass::new(false).class(if is_fx {
        "fixed-point-kind"
    } else {
        "other-kind"
    });
    if let (true, Some((q, off, is64)), Some(v)) = (is_fx, c.fixp, int_val) {
        let off = if is64 { off } else { off as i32 as i64 };
        let qf = f32::from_bits(q) as f64;
        // value -> f64 exactly as an integer-to-double conversion (round to nearest even)
        let vf = v as f64;
        let t = (vf * qf).trunc();
        if t.is_finite() && t >= 0.0 && t < 18446744073709551616.0 {
            let ti = t as u128 as i128;
            let sum = ti + off as i128;
            if (0..(1i128 << 63)).contains(&sum) {
                pass = pass.class("in-window");
                if got != Some(sum as u64) {
                    return Err(viol!(
                        "wrong-real-value",
                        "to_real_value = {:?}, expected Some({}) (value {} x quantization {:e} truncated = {}, offset {})",
                        got, sum, v, qf, ti, off
                    ));
                }
                let nontrivial = off < 0 || qf.fract() != 0.0;
                pass.nontrivial = nontrivial;
                pass = pass
                    .class_if(off < 0, "negative-offset")
                    .class_if(qf.fract() != 0.0, "fractional-quantization");
            } else {
                pass = pass.class("outside-window");
            }
        } else {
            pass = pass.class("product-negative-or-not-finite");
        }
    } else if is_fx {
        pass = pass.class("fixed-point-without-data-or-int");
    }
    Ok(pass)
}

fn nice_q() -> impl Strategy<Value = u32> {
    // round quantizations and their neighbours in f32 (one or two units in the last place above / below)
    (
        prop::sample::select(vec![
            1.0f32, 0.5, 0.01, 0.1, 2.0, 10.0, 0.25, 1.5, 100.0, 0.001, 3.0, 1e-9, 65536.0,
        ]),
        prop_oneof![6 => Just(0i32), 1 => Just(-1i32), 1 => Just(1i32), 1 => -3i32..=3],
    )
        .prop_map(|(f, d)| (f.to_bits() as i64 + d as i64) as u32)
}
fn offsets() -> impl Strategy<Value = i64> {
    prop_oneof![
        3 => -1000i64..1000,
        2 => any::<i32>().prop_map(|v| v as i64),
        2 => any::<i64>(),
        1 => prop::sample::select(vec![i64::MIN, i64::MAX, i32::MIN as i64, i32::MAX as i64, -1, 0, -200, -50]),
    ]
}
pub fn strategy() -> impl Strategy<Value = Case> {
    let fx_kind = prop::sample::select(vec![
        RKind::SintFx(32),
        RKind::SintFx(64),
        RKind::UintFx(32),
        RKind::UintFx(64),
    ]);
    let fixed = (
        fx_kind,
prop_oneof![3 => nice_q(), 2 => g::f32_bits(), 1 => (1u32..200_000, any::<bool>()).prop_map(|(n, neg)| (if neg { -(n as f32) } else { n as f32 }).to_bits())],
        offsets(),
        any::<bool>(),
        any::<bool>(),
        any::<u8>(),
    )
        .prop_flat_map(|(kind, q, off, matched, some, sel)| {
            let bits = match kind {
                RKind::SintFx(b) | RKind::UintFx(b) => b,
                _ => 32,
            };
            let is64 = if matched { bits == 64 } else { sel & 1 == 0 };
            let vbits = if matched {
                bits
            } else {
                [8u8, 16, 32, 64, 128][(sel as usize >> 1) % 5]
            };
            let signed = if matched {
                matches!(kind, RKind::SintFx(_))
            } else {
                sel & 0x40 != 0
            };
            let val = if signed {
                prop_oneof![3 => (-100_000i128..100_000).boxed(), 3 => g::sint_value(vbits)]
                    .prop_map(RVal::I)
                    .boxed()
            } else {
                // (also values whose low bits sit on / next to the rounding midpoints of the conversion to double)
                prop_oneof![
                    3 => (0u128..100_000).boxed(),
                    3 => g::uint_value(vbits),
                    1 => (any::<u64>(), prop::sample::select(vec![0x400u64, 0x401, 0x3ff, 0x7ff, 0x800, 0x801, 0xc00, 0xbff, 0xc01, 0x001]), any::<bool>())
                        .prop_map(|(v, low, top)| ((v & !0xfff) | low | if top { 1 << 63 } else { 0 }) as u128)
                        .boxed()
                ]
                .prop_map(RVal::U)
                .boxed()
            };
            // keep small values inside the variant's range
            val.prop_map(move |v| {
                let v = match v {
                    RVal::I(x) => {
                        let sh = 128 - vbits as u32;
                        RVal::I((x << sh) >> sh)
                    }
                    RVal::U(x) => RVal::U(if vbits == 128 {
                        x
                    } else {
                        x & ((1u128 << vbits) - 1)
                    }),
                    o => o,
                };
                Case {
                    kind,
                    fixp: if some || matched {
                        Some((q, off, is64))
                    } else {
                        None
                    },
                    vbits,
                    val: v,
                    extras: None,
                }
            })
        });
    let other = (g::kind(), any::<bool>(), g::f32_bits(), offsets()).prop_flat_map(
        |(kind, with_fp, q, off)| {
            g::value_for(kind, 40).prop_map(move |val| {
                let vbits = match kind {
                    RKind::Sint(b)
                    | RKind::Uint(b)
                    | RKind::SintFx(b)
                    | RKind::UintFx(b)
                    | RKind::Float(b) => b,
                    _ => 8,
                };
                Case {
                    kind,
                    fixp: if with_fp || matches!(kind, RKind::SintFx(_) | RKind::UintFx(_)) {
                        Some((q, off, vbits == 64))
                    } else {
                        None
                    },
                    vbits,
                    val,
                    extras: None,
                }
            })
        },
    );
    // fixed-point kind carrying a non-integer value
    let odd = (
        prop::sample::select(vec![RKind::SintFx(32), RKind::UintFx(64)]),
        g::f32_bits(),
        offsets(),
        g::kind(),
    )
        .prop_flat_map(|(kind, q, off, vk)| {
            g::value_for(vk, 20).prop_map(move |val| Case {
                kind,
                fixp: Some((q, off, false)),
                vbits: 8,
                val,
                extras: None,
            })
        });
    // every part of the argument drawn independently of the others: any kind x fixed-point data present or not x a
    // value of any variant (also one that contradicts the kind)
    let independent = (
        g::kind(),
        g::kind(),
        prop::option::weighted(
            0.7,
            (
                prop_oneof![nice_q(), g::f32_bits()],
                offsets(),
                any::<bool>(),
            ),
        ),
        prop::sample::select(vec![8u8, 16, 32, 64, 128]),
    )
        .prop_flat_map(|(kind, vk, fixp, vb)| {
            g::value_for(vk, 20).prop_map(move |val| {
                let vbits = match vk {
                    RKind::Sint(b) | RKind::Uint(b) | RKind::SintFx(b) | RKind::UintFx(b) => b,
                    _ => vb,
                };
                Case {
                    kind,
                    fixp,
                    vbits,
                    val,
                    extras: None,
                }
            })
        });
    let base = prop_oneof![8 => fixed, 2 => other, 1 => odd, 2 => window_edges(), 1 => just_below_integer(), 1 => cancelling(), 2 => independent];
    // name / unit / flags / coding have nothing to do with the conversion: any combination, consistent or not
    (
        base,
        prop::option::weighted(
            0.5,
            (
                any::<bool>(),
                prop::option::of(prop_oneof![3 => g::short_text(8), 1 => g::text(80)]),
                prop::option::of(prop_oneof![3 => g::short_text(8), 1 => g::text(80)]),
                any::<bool>(),
                0u8..8,
            ),
        ),
    )
        .prop_map(|(mut c, extras)| {
            c.extras = extras;
            // relations between name and unit (a label builder may compare them): the unit is the tail of the name, in
            // the same or the other letter case, or the name itself
            if let Some((_, Some(name), unit, _, scod)) = &mut c.extras {
                let n = name.chars().count();
                if n > 0 && *scod % 3 == 0 {
                    let keep = 1 + (*scod as usize / 3) % n.min(3);
                    let tail: String = name.chars().skip(n - keep).collect();
                    *unit = Some(match *scod % 4 {
                        0 => tail,
                        1 => tail.to_uppercase(),
                        2 => tail.to_lowercase(),
                        _ => name.clone(),
                    });
                }
            }
            c
        })
}

/// products that land exactly on / next to the edges of the window the statement fixes (0, 2^31, 2^32, 2^53, 2^63, 2^64):
/// value = target / 2^k, quantization = 2^k, offsets that cross or just stay inside the edge
fn window_edges() -> impl Strategy<Value = Case> {
    let deltas = vec![
        0i128,
        1,
        2,
        255,
        1024,
        2048,
        32767,
        32768,
        65536,
        (1 << 31) - 1,
        1 << 31,
        (1 << 31) + 128,
        1 << 32,
    ];
    (
        prop::sample::select(vec![0u32, 31, 32, 52, 53, 62, 63, 64]),
        prop::sample::select(deltas.clone()),
        any::<bool>(),
        0u32..40,
        prop_oneof![3 => prop::sample::select(deltas).prop_map(|d| d as i64), 1 => Just(i32::MAX as i64), 1 => Just(i64::MAX), 1 => any::<i32>().prop_map(|x| x as i64)],
        any::<bool>(),
        any::<bool>(),
        any::<bool>(),
    )
        .prop_map(|(e, d, below, k, off, neg_off, is64, signed)| {
            let edge: i128 = if e == 0 { 0 } else { 1i128 << e };
            let target = if below { edge - d } else { edge + d }.max(0) as u128;
            // split into value * 2^k with the value in 64 bits
            let k = k.min(target.trailing_zeros().min(60));
            let mut v = target >> k;
            let mut k = k;
            while v > u64::MAX as u128 {
                v >>= 1;
                k += 1;
            }
            let q = (2f32).powi(k as i32).to_bits();
            let vbits: u8 = if v < (1 << 32) && !is64 { 32 } else { 64 };
            let kind = match (signed && v < (1u128 << (vbits - 1)), vbits) {
                (true, b) => RKind::SintFx(b),
                (false, b) => RKind::UintFx(b),
            };
            let val = if matches!(kind, RKind::SintFx(_)) { RVal::I(v as i128) } else { RVal::U(v) };
            let off = if neg_off { off.checked_neg().unwrap_or(i64::MIN) } else { off };
            Case { kind, fixp: Some((q, off, is64)), vbits, val, extras: None }
        })
}

/// value x quantization and the offset cancel (or nearly): offset = -(trunc(value x quantization)) + d, d in -3..=3, for
/// values of every magnitude (powers of two and their neighbours, arbitrary 64-bit values) and exact quantizations
fn cancelling() -> impl Strategy<Value = Case> {
    let magnitude = prop_oneof![
        2 => (0u32..64, -2i64..=2).prop_map(|(k, d)| ((1u128 << k) as i128 + d as i128).max(0) as u64),
        1 => any::<u64>(),
        1 => (any::<u64>(), 0u32..64).prop_map(|(v, s)| v >> s),
    ];
    (magnitude, prop::sample::select(vec![1.0f32, 0.25, 0.5, 2.0, 4.0, 1.5]), -3i64..=3, prop::bool::weighted(0.8), any::<bool>()).prop_map(|(v, q, d, is64, signed)| {
        let v = if signed { v >> 1 } else { v };
        let product = ((v as f64) * (q as f64)).trunc();
        let off = if product < 9.2e18 { -(product as i128) + d as i128 } else { -(i64::MAX as i128) + d as i128 };
        let off = off.clamp(i64::MIN as i128, i64::MAX as i128) as i64;
        let (kind, val) = if signed { (RKind::SintFx(64), RVal::I(v as i128)) } else { (RKind::UintFx(64), RVal::U(v as u128)) };
        Case { kind, fixp: Some((q.to_bits(), off, is64)), vbits: 64, val, extras: None }
    })
}

/// value x quantization = n - 2^-k for k >= 30: mathematically just below an integer, so the truncated product is n - 1
/// (value * m = n * 2^k - 1 with m < 2^24, i.e. the quantization m * 2^-k is exactly representable in f32)
fn just_below_integer() -> impl Strategy<Value = Case> {
    static TABLE: std::sync::OnceLock<Vec<(u64, u32, u32)>> = std::sync::OnceLock::new();
    let table = TABLE.get_or_init(|| {
        let mut t = vec![];
        for k in 30u32..=46 {
            for n in 1u64..=6 {
                let big = n * (1u64 << k) - 1;
                // divisors m < 2^24 of `big` whose cofactor fits 32 bits (or 64 bits for the wide kinds)
                let mut m = 3u64;
                while m < (1 << 24) && t.len() < 4000 {
                    if big % m == 0 {
                        let v = big / m;
                        if v > 1 {
                            t.push((v, m as u32, k));
                        }
                    }
                    m += 2;
                }
            }
        }
        t
    });
    (
        prop::sample::select(table.clone()),
        prop_oneof![2 => (-1000i64..1000).boxed(), 2 => offsets().boxed()],
        any::<bool>(),
        any::<bool>(),
    )
        .prop_map(|((v, m, k), off, is64, signed)| {
            let q = ((m as f64) * (2f64).powi(-(k as i32))) as f32;
            let vbits: u8 = if v < (1 << 32) && !is64 { 32 } else { 64 };
            let fits_signed = (v as u128) < (1u128 << (vbits - 1));
            let kind = if signed && fits_signed {
                RKind::SintFx(vbits)
            } else {
                RKind::UintFx(vbits)
            };
            let val = if matches!(kind, RKind::SintFx(_)) {
                RVal::I(v as i128)
            } else {
                RVal::U(v as u128)
            };
            Case {
                kind,
                fixp: Some((q.to_bits(), off, is64)),
                vbits,
                val,
                extras: None,
            }
        })
}

pub fn run(run: &Run) {
    run.rule(
        "cases = arguments of every kind; fixed-point kinds with every integer variant/width (boundaries and random), quantization = arbitrary \
         f32 bit pattern biased to 'nice' values, offsets i32/i64 incl. negative and extremes, also mismatched / missing fixed-point data and \
         non-integer values; products placed on and next to the edges of the exactness window (0, 2^31, 2^32, 2^53, 2^63, 2^64 +- small) with \
         offsets that cross them; products n - 2^-k (k >= 30) just below an integer; non-trivial = fixed point inside the exactness window with a negative offset or non-integral quantization; \
         distinct by the whole case",
    );
    run.assume("reference: trunc((value as f64) * (quantization as f64)) + offset in i128, asserted only inside the window the statement fixes (product finite and >= 0, sum in 0..2^63, value an 8..64-bit integer); outside it only 'no panic' and 'Some implies fixed-point kind with data and integer value'");
    run.regressions(&replay);
    run.random(
        "random",
        run.cases(4_000_000, 60_000_000),
        0.15,
        strategy,
        check,
    );
}

pub fn replay(_section: &str, case: &Json) -> Option<CheckResult> {
    case_from::<Case>(case).map(|c| check(&c))
}
