//! one module per property: `run(&Run)` explores, `replay(section, case)` re-executes one saved case
pub mod c01;
pub mod c02;
pub mod c03;
pub mod c04;
pub mod c05;
pub mod c06;
pub mod c07;
pub mod c08;
pub mod c09;
pub mod c10;
pub mod c11;
pub mod c12;
pub mod c13;
pub mod c14;
pub mod c15;
pub mod c16;
pub mod c17;
pub mod c18;
pub mod c19;
pub mod readers;
pub mod structured;

use crate::runner::CheckResult;
use serde_json::Value;

/// replay of an input found by a libFuzzer target (section "fuzz-<target>", case {"data": hex})
pub fn fuzz_replay(id: &str, section: &str, case: &Value) -> Option<CheckResult> {
    let data = crate::util::unhex(case["data"].as_str()?)?;
    match section {
        "fuzz-bytes" => Some(crate::oracle::fuzz_bytes(id, &data)),
        "fuzz-args" => Some(crate::oracle::fuzz_args(&data)),
        "fuzz-fibex" => c12::replay(
            "damage",
            &serde_json::json!({"base": {"Raw": case["data"]}, "damage": "None", "which_file": 0}),
        ),
        _ => None,
    }
}
