//! one module per property: `run(&Run)` explores, `replay(section, case)` re-executes one saved case
pub mod c17;
pub mod c18;
pub mod c01;
pub mod c15;
pub mod c02;
pub mod c03;
pub mod c04;
pub mod c16;
pub mod c05;
pub mod c06;
pub mod c19;
pub mod c13;
pub mod c14;
pub mod c07;
pub mod c08;
pub mod readers;
