//! C11 — the FIBEX model returned is exactly the model written in the files.
//! Oracle: independent assembly from the abstract model + layout metamorphic relation + lookups.
use crate::gen::fibex as fx;
use crate::runner::*;
use crate::util::guard;
use crate::viol;
use dlt_core::dlt::{ExtendedHeader, LogLevel, MessageType};
use dlt_core::fibex::{extract_metadata, gather_fibex_data, FibexConfig, FibexMetadata};
use proptest::prelude::*;
use serde::{Deserialize, Serialize};
use serde_json::Value as Json;
use std::cell::RefCell;
use std::path::PathBuf;
use std::sync::atomic::{AtomicUsize, Ordering};

#[derive(Debug, Clone, Hash, PartialEq, Eq, Serialize, Deserialize)]
pub struct Case {
    pub model: fx::Model,
    pub layout: fx::Layout,
    pub layout2: fx::Layout,
    pub absent_id: u32,
}

static NEXT_DIR: AtomicUsize = AtomicUsize::new(0);
thread_local! {
    static WORKDIR: RefCell<Option<PathBuf>> = const { RefCell::new(None) };
}
/// per-thread scratch directory (tmpfs when available); removed by `cleanup_workdirs`
pub fn workdir() -> PathBuf {
    WORKDIR.with(|w| {
        let mut w = w.borrow_mut();
        if w.is_none() {
            let base = if std::path::Path::new("/dev/shm").is_dir() {
                PathBuf::from("/dev/shm")
            } else {
                let root = std::env::var("DLTVERIF_ROOT").unwrap_or_else(|_| ".".to_string());
                PathBuf::from(root).join("work")
            };
            let d = base.join(format!(
                "dltverif-{}-{}",
                std::process::id(),
                NEXT_DIR.fetch_add(1, Ordering::Relaxed)
            ));
            let _ = std::fs::create_dir_all(&d);
            *w = Some(d);
        }
        w.clone().unwrap()
    })
}
pub fn cleanup_workdirs() {
    for base in [
        "/dev/shm".to_string(),
        format!(
            "{}/work",
            std::env::var("DLTVERIF_ROOT").unwrap_or_else(|_| ".".to_string())
        ),
    ] {
        if let Ok(rd) = std::fs::read_dir(&base) {
            for e in rd.flatten() {
                if e.file_name()
                    .to_string_lossy()
                    .starts_with(&format!("dltverif-{}-", std::process::id()))
                {
                    let _ = std::fs::remove_dir_all(e.path());
                }
            }
        }
    }
}
pub fn write_docs(docs: &[Vec<u8>], tag: &str) -> Vec<String> {
    let dir = workdir();
    let mut paths = vec![];
    for (i, d) in docs.iter().enumerate() {
        // the order in which the files are listed is the order that counts ("first definition wins"); the names are
        // chosen so that this order differs from the lexicographic order of the paths
        let p = dir.join(format!("{}{}-{}.xml", tag, (i * 7 + 3) % 10, i));
        if std::fs::write(&p, d).is_err() {
            // the directory may have been cleaned up after an earlier section on this thread
            let _ = std::fs::create_dir_all(&dir);
            std::fs::write(&p, d).expect("write fibex file");
        }
        // file metadata is part of what a loader may look at: a quarter of the files carry a modification time other
        // than "just now" (the epoch, a second / a day / two centuries ahead of the clock: copied archives, clock skew)
        let h = crate::util::hash_str(&format!("{}:{}", d.len(), i)) ^ d.iter().take(64).fold(0u64, |a, b| a.wrapping_mul(31).wrapping_add(*b as u64));
        if h % 4 == 0 {
            use std::time::{Duration, SystemTime};
            let stamp = match (h >> 2) % 4 {
                0 => SystemTime::UNIX_EPOCH,
                1 => SystemTime::now() + Duration::from_secs(1),
                2 => SystemTime::now() + Duration::from_secs(86_400),
                _ => SystemTime::UNIX_EPOCH + Duration::from_secs(7_258_118_400),
            };
            if let Ok(f) = std::fs::OpenOptions::new().write(true).open(&p) {
                let _ = f.set_modified(stamp);
            }
        }
        paths.push(p.to_string_lossy().to_string());
    }
    paths
}

fn load(m: &fx::Model, l: &fx::Layout, tag: &str) -> Result<Option<FibexMetadata>, Violation> {
    let docs: Vec<Vec<u8>> = fx::render(m, l)
        .into_iter()
        .map(|s| s.into_bytes())
        .collect();
    let paths = write_docs(&docs, tag);
    guard(|| {
        gather_fibex_data(FibexConfig {
            fibex_file_paths: paths,
        })
    })
    .map_err(|p| Violation::from_panic("gather_fibex_data on a generated model", &p))
}

/// `<MESSAGE_INFO/>` may be read as "no value" or as the empty string: the statement does not say; both are accepted
fn normalise(m: &Option<FibexMetadata>) -> Option<FibexMetadata> {
    let fix = |f: &dlt_core::fibex::FrameMetadata| {
        let mut f = f.clone();
        if f.message_type.as_deref() == Some("") {
            f.message_type = None;
        }
        if f.message_info.as_deref() == Some("") {
            f.message_info = None;
        }
        f
    };
    m.as_ref().map(|m| FibexMetadata {
        frame_map_with_key: m
            .frame_map_with_key
            .iter()
            .map(|(k, v)| (k.clone(), fix(v)))
            .collect(),
        frame_map: m
            .frame_map
            .iter()
            .map(|(k, v)| (k.clone(), fix(v)))
            .collect(),
    })
}

fn diff(got: &Option<FibexMetadata>, want: &Option<FibexMetadata>) -> Option<(String, String)> {
    let got = &normalise(got);
    match (got, want) {
        (None, None) => None,
        (Some(_), None) => Some((
            "loaded-despite-dangling-pdu-ref".into(),
            "loading succeeded although a frame refers to an unknown PDU".into(),
        )),
        (None, Some(_)) => Some((
            "load-failed".into(),
            "loading failed for a valid model".into(),
        )),
        (Some(g), Some(w)) => {
            for (id, wf) in &w.frame_map {
                match g.frame_map.get(id) {
                    None => {
                        return Some(("frame-missing".into(), format!("frame {:?} is missing", id)))
                    }
                    Some(gf) => {
                        if gf != wf {
                            let field = if gf.short_name != wf.short_name {
                                "short-name"
                            } else if gf.pdus.len() != wf.pdus.len() {
                                "pdu-count"
                            } else if gf.pdus != wf.pdus {
                                if gf
                                    .pdus
                                    .iter()
                                    .zip(wf.pdus.iter())
                                    .any(|(a, b)| a.description != b.description)
                                {
                                    "pdu-order-or-description"
                                } else {
                                    "signal-types"
                                }
                            } else {
                                "manufacturer-extension"
                            };
                            return Some((
                                format!("frame:{}", field),
                                format!(
                                    "frame {:?} differs in {}: got {:?} expected {:?}",
                                    id, field, gf, wf
                                ),
                            ));
                        }
                    }
                }
            }
            if g.frame_map.len() != w.frame_map.len() {
                return Some((
                    "frame-extra".into(),
                    format!(
                        "{} frames by id, expected {}",
                        g.frame_map.len(),
                        w.frame_map.len()
                    ),
                ));
            }
            if g.frame_map_with_key != w.frame_map_with_key {
                return Some((
                    "keyed-map".into(),
                    format!(
                        "keyed frame map differs: got keys {:?} expected keys {:?}",
                        g.frame_map_with_key.keys().collect::<Vec<_>>(),
                        w.frame_map_with_key.keys().collect::<Vec<_>>()
                    ),
                ));
            }
            None
        }
    }
}

pub fn check(c: &Case) -> CheckResult {
    let want = fx::expected(&c.model);
    let got = load(&c.model, &c.layout, "a")?;
    if let Some((sig, msg)) = diff(&got, &want) {
        return Err(viol!(
            format!("fibex:{}", sig),
            "{}\n  layout={:?}\n  first file:\n{}",
            msg,
            c.layout,
            fx::render(&c.model, &c.layout)[0]
        ));
    }
    // metamorphic: another layout / partition of the same model gives an equal result
    let got2 = load(&c.model, &c.layout2, "b")?;
    if normalise(&got2) != normalise(&got) {
        let (sig, msg) =
            diff(&got2, &want).unwrap_or(("layout".into(), "second layout differs".into()));
        return Err(viol!(
            format!("fibex:layout-dependence:{}", sig),
            "a second layout of the same model loads differently: {}\n  layout2={:?}",
            msg,
            c.layout2
        ));
    }
    // history: the same paths hold other content of the same size and the same modification time a moment later (a file
    // edited in place and re-stamped, `cp -p`, a reproducible build) — loading returns what the files hold NOW
    if c.absent_id % 4 == 0 {
        let mut variant = c.model.clone();
        let mut changed = false;
        for f in variant.frames.iter_mut() {
            if let Some(ch) = f.short_name.chars().next() {
                if ch.is_ascii_alphanumeric() {
                    let repl = if ch == 'Q' { 'R' } else { 'Q' };
                    f.short_name = format!("{}{}", repl, &f.short_name[1..]);
                    changed = true;
                }
            }
        }
        if changed {
            let stamp = std::time::UNIX_EPOCH + std::time::Duration::from_secs(1_600_000_000);
            let docs_a: Vec<Vec<u8>> = fx::render(&c.model, &c.layout)
                .into_iter()
                .map(|s| s.into_bytes())
                .collect();
            let docs_b: Vec<Vec<u8>> = fx::render(&variant, &c.layout)
                .into_iter()
                .map(|s| s.into_bytes())
                .collect();
            let restamp = |paths: &[String]| {
                for p in paths {
                    if let Ok(f) = std::fs::OpenOptions::new().write(true).open(p) {
                        let _ = f.set_modified(stamp);
                    }
                }
            };
            let paths = write_docs(&docs_a, "r");
            restamp(&paths);
            let first = guard(|| {
                gather_fibex_data(FibexConfig {
                    fibex_file_paths: paths.clone(),
                })
            })
            .map_err(|p| Violation::from_panic("gather_fibex_data", &p))?;
            let paths2 = write_docs(&docs_b, "r");
            restamp(&paths2);
            let second = guard(|| {
                gather_fibex_data(FibexConfig {
                    fibex_file_paths: paths2,
                })
            })
            .map_err(|p| Violation::from_panic("gather_fibex_data (reload)", &p))?;
            if let Some((sig, msg)) = diff(&first, &want) {
                return Err(viol!(
                    format!("fibex:{}", sig),
                    "{} (load before the in-place edit)",
                    msg
                ));
            }
            let want_b = fx::expected(&variant);
            if let Some((sig, msg)) = diff(&second, &want_b) {
                return Err(viol!(format!("fibex:reload:{}", sig), "after the files were rewritten in place (same paths, sizes and modification times) loading returns the old content: {}", msg));
            }
        }
    }
    // lookups
    if let Some(model) = &got {
        let mut ids: Vec<u32> = c
            .model
            .frames
            .iter()
            .filter_map(|f| f.id.strip_prefix("ID_").and_then(|n| n.parse::<u32>().ok()))
            .collect();
        ids.push(c.absent_id);
        ids.push(6);
        for id in ids {
            let text = format!("ID_{}", id);
            let r = guard(|| extract_metadata(model, id, None).cloned())
                .map_err(|p| Violation::from_panic("extract_metadata", &p))?;
            if r.as_ref() != model.frame_map.get(&text) {
                return Err(viol!(
                    "fibex:lookup:by-id",
                    "extract_metadata(id={}, no extended header) = {:?}, the frame map has {:?}",
                    id,
                    r.map(|f| f.short_name),
                    model.frame_map.get(&text).map(|f| &f.short_name)
                ));
            }
            let mut exts: Vec<(String, String)> = c
                .model
                .frames
                .iter()
                .filter_map(|f| {
                    f.ext
                        .as_ref()
                        .and_then(|e| Some((e.application_id.clone()?, e.context_id.clone()?)))
                })
                .collect();
            exts.push(("NOAPP".into(), "NOCTX".into()));
            for (app, ctx) in exts {
                // the lookup uses the ids of the extended header only: its other fields vary and must not matter
                let variety = (id as usize).wrapping_add(app.len() * 7 + ctx.len() * 3);
                let message_type = match variety % 5 {
                    0 => MessageType::Log(LogLevel::Info),
                    1 => MessageType::Control(dlt_core::dlt::ControlType::Request),
                    2 => MessageType::NetworkTrace(dlt_core::dlt::NetworkTraceType::Can),
                    3 => MessageType::ApplicationTrace(dlt_core::dlt::ApplicationTraceType::State),
                    _ => MessageType::Unknown((5, 3)),
                };
                let eh = ExtendedHeader {
                    verbose: variety % 2 == 1,
                    argument_count: (variety % 4) as u8,
                    message_type,
                    application_id: app.clone(),
                    context_id: ctx.clone(),
                };
                let r = guard(|| extract_metadata(model, id, Some(&eh)).cloned())
                    .map_err(|p| Violation::from_panic("extract_metadata", &p))?;
                let want = want.as_ref().and_then(|w| {
                    w.frame_map_with_key
                        .iter()
                        .find(|(k, _)| k.frame_id == text && k.app_id == app && k.context_id == ctx)
                        .map(|(_, v)| v.clone())
                });
                if r != want {
                    return Err(viol!(
                        "fibex:lookup:by-key",
                        "extract_metadata(id={}, app={:?}, ctx={:?}) = {:?}, expected {:?}",
                        id,
                        app,
                        ctx,
                        r.map(|f| f.short_name),
                        want.map(|f| f.short_name)
                    ));
                }
            }
        }
    }
    let m = &c.model;
    let out_of_order = |l: &fx::Layout| l.child_keys.windows(2).any(|w| w[0] > w[1]);
    let multi_pdu_frame = m.frames.iter().any(|f| f.pdus.len() >= 2);
    let dup_pdu = {
        let mut ids: Vec<&String> = m.pdus.iter().map(|p| &p.id).collect();
        ids.sort();
        ids.windows(2).any(|w| w[0] == w[1])
    };
    let dup_frame = {
        let mut ids: Vec<&String> = m.frames.iter().map(|f| &f.id).collect();
        ids.sort();
        ids.windows(2).any(|w| w[0] == w[1])
    };
    let custom = m
        .pdus
        .iter()
        .any(|p| p.signals.iter().any(|s| s.1.starts_with("SIG_")));
    let multi_file = c.layout.files.min(4) >= 2;
    Ok(Pass::new(
        (multi_pdu_frame && out_of_order(&c.layout))
            || multi_file
            || dup_pdu
            || dup_frame
            || custom,
    )
    .class(if want.is_some() {
        "loads"
    } else {
        "dangling-pdu-ref"
    })
    .class_if(multi_file, "files>=2")
    .class_if(dup_pdu, "duplicate-pdu-id")
    .class_if(dup_frame, "duplicate-frame-id")
    .class_if(custom, "custom-coded-signal")
    .class_if(multi_pdu_frame, "frame-with>=2-pdus")
    .class_if(m.frames.is_empty(), "no-frames"))
}

pub fn strategy() -> impl Strategy<Value = Case> {
    (fx::model(), fx::layout(), fx::layout(), any::<u32>()).prop_map(
        |(model, layout, layout2, absent_id)| Case {
            model,
            layout,
            layout2,
            absent_id,
        },
    )
}

pub fn run(run: &Run) {
    run.rule(
        "cases = abstract FIBEX model (codings over the supported base types + unknown ones, signals with valid/dangling coding refs, PDUs with \
         optional short name, absent/empty/text descriptions and signal instances with distinct sparse sequence numbers referring to standard S_* \
         names, custom signals, unknown names and S_FLOA16; frames ID_<u32> or free ids, PDU instances, optional manufacturer extension with each field \
         optional; duplicate PDU / frame ids with different content; sometimes one dangling PDU reference) x two independent layouts (partition into \
         1..4 files, element order, child order, namespace prefixes, refs as empty or start/end tags, comments / unrelated elements / ECU block); \
         gather_fibex_data must equal the independent assembly (first definition wins, children by sequence number, vocabulary table, unknown signal \
         refs skipped, dangling PDU ref => None), both layouts must load equally, extract_metadata must return the keyed / unkeyed entry or None; \
         non-trivial = multi-PDU frame with shuffled children, or >= 2 files, or a duplicate id, or a custom-coded signal; distinct by the whole case",
    );
    run.assume("not generated because the statement is silent: duplicate signal/coding ids, equal sequence numbers, custom signals named like standard ones, empty SHORT-NAME / FRAME-TYPE, CODING-REF written as start/end tags, nested SHORT-NAME inside instances");
    run.regressions(&replay);
    run.random(
        "models",
        run.cases(120_000, 1_500_000),
        0.5,
        strategy,
        check,
    );
    cleanup_workdirs();
}

pub fn replay(_section: &str, case: &Json) -> Option<CheckResult> {
    let r = case_from::<Case>(case).map(|c| check(&c));
    cleanup_workdirs();
    r
}
