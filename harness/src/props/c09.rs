//! C09 — filtering drops exactly the messages that fail the configured criteria.
//! Oracle: an independent decision procedure written from the statement + "kept == unfiltered".
use super::c04::{filter, Filter};
use crate::gen::message as g;
use crate::model::*;
use crate::runner::*;
use crate::util::{guard, hex_short};
use crate::viol;
use dlt_core::filtering::ProcessedDltFilterConfig;
use dlt_core::parse::{dlt_message, ParsedMessage};
use dlt_core::read::{read_message, DltMessageReader};
use proptest::prelude::*;
use serde::{Deserialize, Serialize};
use serde_json::Value as Json;
use std::collections::BTreeSet;

#[derive(Debug, Clone, Hash, PartialEq, Eq, Serialize, Deserialize)]
pub struct Case {
    pub filter: Filter,
    pub msg: RMsg,
    #[serde(with = "crate::util::hexser")]
    pub suffix: Vec<u8>,
    /// convert through From<&DltFilterConfig> instead of From<DltFilterConfig>
    pub borrowed: bool,
}

/// the decision the statement prescribes; returns (dropped, reason)
pub fn decide(f: &Filter, m: &RMsg) -> (bool, &'static str) {
    let set = |l: &Option<Vec<String>>| l.as_ref().map(|v| v.iter().cloned().collect::<BTreeSet<String>>());
    let (apps, ctxs, ecus) = (set(&f.app_ids), set(&f.context_ids), set(&f.ecu_ids));
    match &m.ext {
        Some(e) => {
            // numeric minimum level: 1 fatal .. 6 verbose; anything else = no level filtering
            if let Some(min) = f.min_log_level.filter(|l| (1..=6).contains(l)) {
                let mstp = (e.msin >> 1) & 7;
                let level = e.msin >> 4;
                if mstp == 0 && (1..=6).contains(&level) && level > min {
                    return (true, "level");
                }
            }
            if let Some(a) = &apps {
                if !a.contains(&e.apid) {
                    return (true, "app-id");
                }
            }
            if let Some(c) = &ctxs {
                if !c.contains(&e.ctid) {
                    return (true, "context-id");
                }
            }
            if let (Some(s), Some(id)) = (&ecus, &m.ecu) {
                if !s.contains(id) {
                    return (true, "ecu-id");
                }
            }
            (false, "kept")
        }
        None => {
            if let Some(a) = &apps {
                if f.app_id_count > a.len() as i64 {
                    return (true, "no-ext:app-count");
                }
            }
            if let Some(c) = &ctxs {
                if f.context_id_count > c.len() as i64 {
                    return (true, "no-ext:context-count");
                }
            }
            (false, "no-ext:kept")
        }
    }
}

pub fn check(c: &Case) -> CheckResult {
    let cfg = c.filter.to_crate();
    let pf = if c.borrowed { ProcessedDltFilterConfig::from(&cfg) } else { ProcessedDltFilterConfig::from(cfg) };
    let storage = c.msg.storage.is_some();
    let mut buf = to_crate(&c.msg).as_bytes();
    let msg_len = buf.len();
    buf.extend_from_slice(&c.suffix);
    let (dropped, reason) = decide(&c.filter, &c.msg);
    let plain = guard(|| dlt_message(&buf, None, storage).map(|(r, pm)| (r.len(), pm))).map_err(|p| Violation::from_panic("dlt_message without filter", &p))?;
    let filtered = guard(|| dlt_message(&buf, Some(&pf), storage).map(|(r, pm)| (r.len(), pm))).map_err(|p| Violation::from_panic("dlt_message with filter", &p))?;
    let ctx = || format!("filter={:?} (borrowed conversion: {}) message={}", c.filter, c.borrowed, hex_short(&buf[..msg_len]));
    let Ok((rest_plain, ParsedMessage::Item(pm))) = &plain else {
        return Err(viol!("filter:unfiltered-parse", "well-formed message does not parse without filter: {}", short_dbg(&plain)));
    };
    let payload_len = c.msg.len as usize - c.msg.headers_len();
    let judge = |got: &Result<(usize, ParsedMessage), dlt_core::parse::DltParseError>, via: &str| -> Result<(), Violation> {
        match got {
            Ok((rest, ParsedMessage::FilteredOut(n))) => {
                if !dropped {
                    return Err(viol!(format!("filter:{}:dropped-but-should-keep", reason), "{}: message was filtered out but the criteria keep it ({}); {}", via, reason, ctx()));
                }
                if *n != payload_len {
                    return Err(viol!("filter:marker-payload-length", "{}: FilteredOut({}) but the payload has {} bytes; {}", via, n, payload_len, ctx()));
                }
                if rest != rest_plain {
                    return Err(viol!("filter:remainder", "{}: filtered parse leaves {} bytes, unfiltered {}; {}", via, rest, rest_plain, ctx()));
                }
                Ok(())
            }
            Ok((rest, ParsedMessage::Item(m))) => {
                if dropped {
                    return Err(viol!(format!("filter:{}:kept-but-should-drop", reason), "{}: message was kept but fails the criteria ({}); {}", via, reason, ctx()));
                }
                msg_eq_bits(pm, m).map_err(|d| viol!("filter:kept-differs", "{}: kept message differs from the unfiltered parse: {}; {}", via, d, ctx()))?;
                if rest != rest_plain {
                    return Err(viol!("filter:remainder", "{}: kept parse leaves {} bytes, unfiltered {}; {}", via, rest, rest_plain, ctx()));
                }
                Ok(())
            }
            other => Err(viol!("filter:result", "{}: unexpected result {}; {}", via, short_dbg(other), ctx())),
        }
    };
    judge(&filtered, "dlt_message")?;
    // the same through the reader (the reader sees exactly the message, no suffix)
    let via_reader = guard(|| {
        let mut reader = DltMessageReader::with_capacity(65551, 65551, &buf[..msg_len], storage);
        read_message(&mut reader, Some(&pf))
    })
    .map_err(|p| Violation::from_panic("read_message with filter", &p))?;
    let as_parse = match via_reader {
        Ok(Some(pm)) => Ok((*rest_plain, pm)),
        Ok(None) => return Err(viol!("filter:reader-end", "read_message returned end of stream for a complete message; {}", ctx())),
        Err(e) => Err(e),
    };
    judge(&as_parse, "read_message")?;
    let present = c.filter.min_log_level.is_some() as u8 + c.filter.app_ids.is_some() as u8 + c.filter.context_ids.is_some() as u8 + c.filter.ecu_ids.is_some() as u8;
    let invalid_level = matches!(&c.msg.ext, Some(e) if (e.msin >> 1) & 7 == 0 && !(1..=6).contains(&(e.msin >> 4)));
    let min_out_of_range = matches!(c.filter.min_log_level, Some(l) if !(1..=6).contains(&l));
    Ok(Pass::new(present >= 1)
        .class(match reason {
            "level" => "dropped:level",
            "app-id" => "dropped:app-id",
            "context-id" => "dropped:context-id",
            "ecu-id" => "dropped:ecu-id",
            "no-ext:app-count" => "dropped:no-ext:app-count",
            "no-ext:context-count" => "dropped:no-ext:context-count",
            "no-ext:kept" => "kept:no-ext",
            _ => "kept",
        })
        .class_if(invalid_level, "message:invalid-log-level")
        .class_if(min_out_of_range, "filter:min-level-outside-1..6")
        .class_if(c.msg.ecu.is_none(), "message:no-ecu-id")
        .class_if(c.borrowed, "conversion:borrowed")
        .class_if(present == 0, "filter:no-criterion"))
}

pub fn strategy() -> impl Strategy<Value = Case> {
    (
        filter(),
        g::message(g::MsgParams { large: false, pool_ids: true, ..Default::default() }),
        g::suffix(),
        any::<bool>(),
        (prop::bool::weighted(0.5), any::<[bool; 3]>(), prop::bool::weighted(0.4)),
    )
        .prop_map(|(filter, msg, suffix, borrowed, (force_log, own, valid_min))| assemble(filter, msg, suffix, borrowed, force_log, own, valid_min))
}

/// biases applied to a generated (filter, message) pair: more log messages (level rule), id lists that contain the
/// message's own ids (so that later criteria decide), a minimum level inside 1..=6
pub fn assemble(mut filter: Filter, mut msg: RMsg, suffix: Vec<u8>, borrowed: bool, force_log: bool, own: [bool; 3], valid_min: bool) -> Case {
        // bias: more log messages (level rule), id lists that contain the message's own ids (so that later criteria decide)
        if let Some(e) = &mut msg.ext {
            // (only for types whose payload kind does not depend on the type: not network trace, not control)
            if force_log && !matches!((e.msin >> 1) & 7, 2 | 3) {
                e.msin &= 0xf1;
            }
            if let (true, Some(l)) = (own[0], &mut filter.app_ids) {
                l.push(e.apid.clone());
            }
            if let (true, Some(l)) = (own[1], &mut filter.context_ids) {
                l.push(e.ctid.clone());
            }
        }
        if let (true, Some(l), Some(id)) = (own[2], &mut filter.ecu_ids, &msg.ecu) {
            l.push(id.clone());
        }
        if let (true, Some(l)) = (valid_min, &mut filter.min_log_level) {
            *l = 1 + *l % 6;
        }
        Case { filter, msg, suffix, borrowed }
}

pub fn run(run: &Run) {
    run.rule(
        "cases = filter configuration (each criterion absent/present, min level any u8 biased to 0..8, id lists empty / with duplicates / hitting or \
         missing the message's ids from a small shared pool, counts = set size + {-1,0,+1}, 0, negative, huge; converted through the owned or the \
         borrowed From impl) x well-formed message (pool ids, all message types incl. invalid log levels, with/without ECU id and extended header) x \
         suffix; oracle = independent decision procedure written from the statement; dropped => FilteredOut(payload length) and the unfiltered \
         remainder, kept => identical to the unfiltered parse; the same through read_message(reader, Some(filter)); non-trivial = at least one \
         criterion present; distinct by the whole case",
    );
    run.regressions(&replay);
    run.random("filter", run.cases(1_000_000, 12_000_000), 0.5, strategy, check);
}

pub fn replay(_section: &str, case: &Json) -> Option<CheckResult> {
    case_from::<Case>(case).map(|c| check(&c))
}
