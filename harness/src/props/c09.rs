//! C09 — filtering drops exactly the messages that fail the configured criteria.
//! Oracle: an independent decision procedure written from the statement + "kept == unfiltered".
use super::c04::{filter, Filter};
use crate::gen::message as g;
use crate::model::*;
use crate::runner::*;
use crate::util::{guard, hex_short};
use crate::viol;
use dlt_core::filtering::ProcessedDltFilterConfig;
use dlt_core::parse::{dlt_message, ParsedMessage};
use dlt_core::read::{read_message, DltMessageReader};
use proptest::prelude::*;
use serde::{Deserialize, Serialize};
use serde_json::Value as Json;
use std::collections::BTreeSet;

#[derive(Debug, Clone, Hash, PartialEq, Eq, Serialize, Deserialize)]
pub struct Case {
    pub filter: Filter,
    pub msg: RMsg,
    #[serde(with = "crate::util::hexser")]
    pub suffix: Vec<u8>,
    /// convert through From<&DltFilterConfig> instead of From<DltFilterConfig>
    pub borrowed: bool,
    /// 1: the processed configuration is written as a struct literal (its fields are public) instead of being converted;
    /// 2: converted, then one absent/present criterion edited in place to the model's value (no-op edit)
    #[serde(default)]
    pub handbuilt: u8,
    /// also read a stream "sibling, message, sibling, message .." through ONE reader with the filter, the siblings
    /// differing from the message in a single header field (ECU id, application id, context id, level)
    #[serde(default)]
    pub siblings: bool,
}

/// the processed configuration written down directly from the model (levels 1..=6 name a level, others none)
fn literal_config(f: &Filter) -> ProcessedDltFilterConfig {
    use dlt_core::dlt::LogLevel;
    let set = |l: &Option<Vec<String>>| {
        l.as_ref().map(|v| {
            v.iter()
                .cloned()
                .collect::<std::collections::HashSet<String>>()
        })
    };
    ProcessedDltFilterConfig {
        min_log_level: match f.min_log_level {
            Some(1) => Some(LogLevel::Fatal),
            Some(2) => Some(LogLevel::Error),
            Some(3) => Some(LogLevel::Warn),
            Some(4) => Some(LogLevel::Info),
            Some(5) => Some(LogLevel::Debug),
            Some(6) => Some(LogLevel::Verbose),
            _ => None,
        },
        app_ids: set(&f.app_ids),
        ecu_ids: set(&f.ecu_ids),
        context_ids: set(&f.context_ids),
        app_id_count: f.app_id_count,
        context_id_count: f.context_id_count,
    }
}

/// variants of a message that differ in one header field the filter looks at
fn siblings_of(f: &Filter, m: &RMsg) -> Vec<RMsg> {
    let other = |list: &Option<Vec<String>>, cur: &str| -> String {
        match list {
            Some(l) if l.iter().any(|x| x == cur) => "ZZZ".to_string(),
            // (an allowed id, if the list holds one that is a well-formed id: at most 4 bytes, no NUL)
            Some(l) => l
                .iter()
                .find(|x| x.len() <= 4 && !x.contains('\0'))
                .cloned()
                .unwrap_or_else(|| "ZZZ".to_string()),
            _ => "ZZZ".to_string(),
        }
    };
    let mut out = vec![];
    if let Some(e) = &m.ecu {
        let mut v = m.clone();
        v.ecu = Some(other(&f.ecu_ids, e));
        out.push(v);
    }
    if let Some(x) = &m.ext {
        let mut v = m.clone();
        v.ext.as_mut().unwrap().apid = other(&f.app_ids, &x.apid);
        out.push(v);
        let mut v = m.clone();
        v.ext.as_mut().unwrap().ctid = other(&f.context_ids, &x.ctid);
        out.push(v);
        if (x.msin >> 1) & 7 == 0 {
            // another level: the most severe one if the message is not fatal, the least severe one otherwise
            let mut v = m.clone();
            let lvl = if x.msin >> 4 == 1 { 6 } else { 1 };
            v.ext.as_mut().unwrap().msin = (x.msin & 0x0f) | (lvl << 4);
            out.push(v);
        }
    }
    out
}

/// the decision the statement prescribes; returns (dropped, reason)
pub fn decide(f: &Filter, m: &RMsg) -> (bool, &'static str) {
    let set = |l: &Option<Vec<String>>| {
        l.as_ref()
            .map(|v| v.iter().cloned().collect::<BTreeSet<String>>())
    };
    let (apps, ctxs, ecus) = (set(&f.app_ids), set(&f.context_ids), set(&f.ecu_ids));
    match &m.ext {
        Some(e) => {
            // numeric minimum level: 1 fatal .. 6 verbose; anything else = no level filtering
            if let Some(min) = f.min_log_level.filter(|l| (1..=6).contains(l)) {
                let mstp = (e.msin >> 1) & 7;
                let level = e.msin >> 4;
                if mstp == 0 && (1..=6).contains(&level) && level > min {
                    return (true, "level");
                }
            }
            if let Some(a) = &apps {
                if !a.contains(&e.apid) {
                    return (true, "app-id");
                }
            }
            if let Some(c) = &ctxs {
                if !c.contains(&e.ctid) {
                    return (true, "context-id");
                }
            }
            if let (Some(s), Some(id)) = (&ecus, &m.ecu) {
                if !s.contains(id) {
                    return (true, "ecu-id");
                }
            }
            (false, "kept")
        }
        None => {
            if let Some(a) = &apps {
                if f.app_id_count > a.len() as i64 {
                    return (true, "no-ext:app-count");
                }
            }
            if let Some(c) = &ctxs {
                if f.context_id_count > c.len() as i64 {
                    return (true, "no-ext:context-count");
                }
            }
            (false, "no-ext:kept")
        }
    }
}

pub fn check(c: &Case) -> CheckResult {
    let cfg = c.filter.to_crate();
    let mut pf = if c.handbuilt == 1 {
        literal_config(&c.filter)
    } else if c.borrowed {
        ProcessedDltFilterConfig::from(&cfg)
    } else {
        ProcessedDltFilterConfig::from(cfg)
    };
    if c.handbuilt == 2 {
        // a converted configuration whose public fields are written again with the same content
        let lit = literal_config(&c.filter);
        pf.app_ids = lit.app_ids;
        pf.context_ids = lit.context_ids;
        pf.ecu_ids = lit.ecu_ids;
        pf.app_id_count = lit.app_id_count;
        pf.context_id_count = lit.context_id_count;
    }
    let storage = c.msg.storage.is_some();
    let mut buf = to_crate(&c.msg).as_bytes();
    let msg_len = buf.len();
    buf.extend_from_slice(&c.suffix);
    let (dropped, reason) = decide(&c.filter, &c.msg);
    let plain = guard(|| dlt_message(&buf, None, storage).map(|(r, pm)| (r.len(), pm)))
        .map_err(|p| Violation::from_panic("dlt_message without filter", &p))?;
    let filtered = guard(|| dlt_message(&buf, Some(&pf), storage).map(|(r, pm)| (r.len(), pm)))
        .map_err(|p| Violation::from_panic("dlt_message with filter", &p))?;
    let ctx = || {
        format!(
            "filter={:?} (borrowed conversion: {}) message={}",
            c.filter,
            c.borrowed,
            hex_short(&buf[..msg_len])
        )
    };
    let Ok((rest_plain, ParsedMessage::Item(pm))) = &plain else {
        return Err(viol!(
            "filter:unfiltered-parse",
            "well-formed message does not parse without filter: {}",
            short_dbg(&plain)
        ));
    };
    let payload_len = c.msg.len as usize - c.msg.headers_len();
    let judge = |got: &Result<(usize, ParsedMessage), dlt_core::parse::DltParseError>,
                 via: &str|
     -> Result<(), Violation> {
        match got {
            Ok((rest, ParsedMessage::FilteredOut(n))) => {
                if !dropped {
                    return Err(viol!(
                        format!("filter:{}:dropped-but-should-keep", reason),
                        "{}: message was filtered out but the criteria keep it ({}); {}",
                        via,
                        reason,
                        ctx()
                    ));
                }
                if *n != payload_len {
                    return Err(viol!(
                        "filter:marker-payload-length",
                        "{}: FilteredOut({}) but the payload has {} bytes; {}",
                        via,
                        n,
                        payload_len,
                        ctx()
                    ));
                }
                if rest != rest_plain {
                    return Err(viol!(
                        "filter:remainder",
                        "{}: filtered parse leaves {} bytes, unfiltered {}; {}",
                        via,
                        rest,
                        rest_plain,
                        ctx()
                    ));
                }
                Ok(())
            }
            Ok((rest, ParsedMessage::Item(m))) => {
                if dropped {
                    return Err(viol!(
                        format!("filter:{}:kept-but-should-drop", reason),
                        "{}: message was kept but fails the criteria ({}); {}",
                        via,
                        reason,
                        ctx()
                    ));
                }
                msg_eq_bits(pm, m).map_err(|d| {
                    viol!(
                        "filter:kept-differs",
                        "{}: kept message differs from the unfiltered parse: {}; {}",
                        via,
                        d,
                        ctx()
                    )
                })?;
                if rest != rest_plain {
                    return Err(viol!(
                        "filter:remainder",
                        "{}: kept parse leaves {} bytes, unfiltered {}; {}",
                        via,
                        rest,
                        rest_plain,
                        ctx()
                    ));
                }
                Ok(())
            }
            other => Err(viol!(
                "filter:result",
                "{}: unexpected result {}; {}",
                via,
                short_dbg(other),
                ctx()
            )),
        }
    };
    judge(&filtered, "dlt_message")?;
    // the same through the reader (the reader sees exactly the message, no suffix)
    let via_reader = guard(|| {
        let mut reader = DltMessageReader::with_capacity(65551, 65551, &buf[..msg_len], storage);
        read_message(&mut reader, Some(&pf))
    })
    .map_err(|p| Violation::from_panic("read_message with filter", &p))?;
    let as_parse = match via_reader {
        Ok(Some(pm)) => Ok((*rest_plain, pm)),
        Ok(None) => {
            return Err(viol!(
                "filter:reader-end",
                "read_message returned end of stream for a complete message; {}",
                ctx()
            ))
        }
        Err(e) => Err(e),
    };
    judge(&as_parse, "read_message")?;
    // the same headers in the dialect real ECUs emit: left-over bytes behind the NUL that ends a short id (the id is what
    // precedes the first NUL); the verdict depends on the decoded ids, so it must be the one of the canonical message
    if c.siblings {
        let s0 = if storage { 16 } else { 0 };
        let mut twin = buf[..msg_len].to_vec();
        let mut fields = vec![];
        let mut at = s0 + 4;
        if c.msg.htyp & WEID != 0 {
            fields.push((at, c.msg.ecu.clone().unwrap_or_default()));
            at += 4;
        }
        if c.msg.htyp & WSID != 0 {
            at += 4;
        }
        if c.msg.htyp & WTMS != 0 {
            at += 4;
        }
        if let Some(x) = &c.msg.ext {
            fields.push((at + 2, x.apid.clone()));
            fields.push((at + 6, x.ctid.clone()));
        }
        let mut changed = false;
        for (pos, text) in fields {
            if text.len() <= 2 && pos + 4 <= twin.len() {
                for k in text.len() + 1..4 {
                    twin[pos + k] = b'x' + k as u8;
                    changed = true;
                }
            }
        }
        if changed {
            let got = guard(|| dlt_message(&twin, Some(&pf), storage).map(|(r, pm)| (r.len(), pm))).map_err(|p| Violation::from_panic("dlt_message with filter", &p))?;
            match (&got, dropped) {
                (Ok((0, ParsedMessage::FilteredOut(n))), true) if *n == payload_len => {}
                (Ok((0, ParsedMessage::Item(_))), false) => {}
                _ => {
                    return Err(viol!(
                        format!("filter:dialect-ids:{}", reason),
                        "the message with left-over bytes behind the NUL of its short ids ({}) must be {} like the canonical one ({}), got {}; {}",
                        hex_short(&twin), if dropped { "dropped" } else { "kept" }, reason, short_dbg(&got), ctx()
                    ))
                }
            }
        }
    }
    // "message for message": a whole stream through one reader / one thread; each verdict depends on that message alone
    let mut n_siblings = 0;
    if c.siblings {
        let sibs = siblings_of(&c.filter, &c.msg);
        n_siblings = sibs.len();
        let mut seq: Vec<&RMsg> = vec![];
        for v in &sibs {
            seq.push(v);
            seq.push(&c.msg);
        }
        let encs: Vec<Vec<u8>> = seq.iter().map(|m| to_crate(m).as_bytes()).collect();
        let stream: Vec<u8> = encs.concat();
        let outs = guard(|| {
            let mut reader = DltMessageReader::with_capacity(65551, 65551, &stream[..], storage);
            (0..seq.len())
                .map(|_| read_message(&mut reader, Some(&pf)))
                .collect::<Vec<_>>()
        })
        .map_err(|p| Violation::from_panic("read_message with filter over a stream", &p))?;
        let mut rest: &[u8] = &stream;
        for (i, (m, out)) in seq.iter().zip(outs).enumerate() {
            let (drop_i, why) = decide(&c.filter, m);
            let plen = m.len as usize - m.headers_len();
            let sliced =
                guard(|| dlt_message(rest, Some(&pf), storage).map(|(r, pm)| (r.len(), pm)))
                    .map_err(|p| {
                        Violation::from_panic("dlt_message with filter over a stream", &p)
                    })?;
            rest = &rest[encs[i].len()..];
            let via_reader = match out {
                Ok(Some(pm)) => Ok((rest.len(), pm)),
                Ok(None) => {
                    return Err(viol!(
                        "filter:stream:reader-end",
                        "read_message returned end of stream at message {} of {}; {}",
                        i,
                        seq.len(),
                        ctx()
                    ))
                }
                Err(e) => Err(e),
            };
            for (got, via) in [(&sliced, "dlt_message"), (&via_reader, "read_message")] {
                let sibling = || {
                    format!(
                        "message {} of the stream (sibling differing in one header field: {})",
                        i,
                        hex_short(&encs[i])
                    )
                };
                match got {
                    Ok((r, ParsedMessage::FilteredOut(n)))
                        if drop_i && *n == plen && *r == rest.len() => {}
                    Ok((r, ParsedMessage::Item(x))) if !drop_i && *r == rest.len() => {
                        let alone = guard(|| dlt_message(&encs[i], None, storage))
                            .map_err(|p| Violation::from_panic("dlt_message without filter", &p))?;
                        match alone {
                            Ok((_, ParsedMessage::Item(a))) => msg_eq_bits(&a, x).map_err(|d| {
                                viol!(
                                    "filter:stream:kept-differs",
                                    "{}: {} kept, but differs from its unfiltered parse: {}; {}",
                                    via,
                                    sibling(),
                                    d,
                                    ctx()
                                )
                            })?,
                            other => {
                                return Err(viol!(
                                    "filter:unfiltered-parse",
                                    "well-formed message does not parse without filter: {}",
                                    short_dbg(&other)
                                ))
                            }
                        }
                    }
                    other => {
                        return Err(viol!(
                            format!(
                                "filter:stream:{}:{}",
                                why,
                                if drop_i { "should-drop" } else { "should-keep" }
                            ),
                            "{} in a stream: {} must be {} ({}), got {}; {}",
                            via,
                            sibling(),
                            if drop_i {
                                format!("FilteredOut({})", plen)
                            } else {
                                "kept".to_string()
                            },
                            why,
                            short_dbg(other),
                            ctx()
                        ))
                    }
                }
            }
        }
    }
    let present = c.filter.min_log_level.is_some() as u8
        + c.filter.app_ids.is_some() as u8
        + c.filter.context_ids.is_some() as u8
        + c.filter.ecu_ids.is_some() as u8;
    let invalid_level = matches!(&c.msg.ext, Some(e) if (e.msin >> 1) & 7 == 0 && !(1..=6).contains(&(e.msin >> 4)));
    let min_out_of_range = matches!(c.filter.min_log_level, Some(l) if !(1..=6).contains(&l));
    Ok(Pass::new(present >= 1)
        .class(match reason {
            "level" => "dropped:level",
            "app-id" => "dropped:app-id",
            "context-id" => "dropped:context-id",
            "ecu-id" => "dropped:ecu-id",
            "no-ext:app-count" => "dropped:no-ext:app-count",
            "no-ext:context-count" => "dropped:no-ext:context-count",
            "no-ext:kept" => "kept:no-ext",
            _ => "kept",
        })
        .class_if(invalid_level, "message:invalid-log-level")
        .class_if(min_out_of_range, "filter:min-level-outside-1..6")
        .class_if(c.msg.ecu.is_none(), "message:no-ecu-id")
        .class_if(c.borrowed && c.handbuilt != 1, "conversion:borrowed")
        .class_if(c.handbuilt == 1, "configuration:struct-literal")
        .class_if(c.handbuilt == 2, "configuration:converted-then-rewritten")
        .class_if(n_siblings > 0, "stream-of-siblings-through-one-reader")
        .class_if(present == 0, "filter:no-criterion"))
}

pub fn strategy() -> impl Strategy<Value = Case> {
    (
        filter(),
        g::message(g::MsgParams {
            large: false,
            pool_ids: true,
            ..Default::default()
        }),
        g::suffix(),
        any::<bool>(),
        (
            prop::bool::weighted(0.5),
            any::<[bool; 3]>(),
            prop::bool::weighted(0.4),
        ),
        (
            prop_oneof![6 => Just(0u8), 2 => Just(1u8), 1 => Just(2u8)],
            prop::bool::weighted(0.25),
        ),
    )
        .prop_map(
            |(
                filter,
                msg,
                suffix,
                borrowed,
                (force_log, own, valid_min),
                (handbuilt, siblings),
            )| {
                let mut c = assemble(filter, msg, suffix, borrowed, force_log, own, valid_min);
                c.handbuilt = handbuilt;
                c.siblings = siblings;
                c
            },
        )
}

/// biases applied to a generated (filter, message) pair: more log messages (level rule), id lists that contain the
/// message's own ids (so that later criteria decide), a minimum level inside 1..=6
pub fn assemble(
    mut filter: Filter,
    mut msg: RMsg,
    suffix: Vec<u8>,
    borrowed: bool,
    force_log: bool,
    own: [bool; 3],
    valid_min: bool,
) -> Case {
    // bias: more log messages (level rule), id lists that contain the message's own ids (so that later criteria decide)
    if let Some(e) = &mut msg.ext {
        // (only for types whose payload kind does not depend on the type: not network trace, not control)
        if force_log && !matches!((e.msin >> 1) & 7, 2 | 3) {
            e.msin &= 0xf1;
        }
        if let (true, Some(l)) = (own[0], &mut filter.app_ids) {
            l.push(e.apid.clone());
        }
        if let (true, Some(l)) = (own[1], &mut filter.context_ids) {
            l.push(e.ctid.clone());
        }
    }
    if let (true, Some(l), Some(id)) = (own[2], &mut filter.ecu_ids, &msg.ecu) {
        l.push(id.clone());
    }
    if let (true, Some(l)) = (valid_min, &mut filter.min_log_level) {
        *l = 1 + *l % 6;
    }
    Case {
        filter,
        msg,
        suffix,
        borrowed,
        handbuilt: 0,
        siblings: false,
    }
}

pub fn run(run: &Run) {
    run.rule(
        "cases = filter configuration (each criterion absent/present, min level any u8 biased to 0..8, id lists empty / with duplicates / hitting or \
         missing the message's ids from a small shared pool, counts = set size + {-1,0,+1}, 0, negative, huge; converted through the owned or the \
         borrowed From impl) x well-formed message (pool ids, all message types incl. invalid log levels, with/without ECU id and extended header) x \
         suffix; oracle = independent decision procedure written from the statement; dropped => FilteredOut(payload length) and the unfiltered \
         remainder, kept => identical to the unfiltered parse; the same through read_message(reader, Some(filter)); a quarter of the cases also as a stream 'sibling, message, sibling, message ..' (siblings differ in one header field: ECU / application / context id, level) through ONE reader and through repeated slice parsing, each verdict judged on its own; a third of the configurations are written as struct literals or rewritten after conversion; non-trivial = at least one \
         criterion present; distinct by the whole case",
    );
    run.regressions(&replay);
    run.random(
        "filter",
        run.cases(1_000_000, 12_000_000),
        0.5,
        strategy,
        check,
    );
}

pub fn replay(_section: &str, case: &Json) -> Option<CheckResult> {
    case_from::<Case>(case).map(|c| check(&c))
}
