//! C17 — timestamps built from milliseconds / microseconds denote the same instant.
//! Oracle: wide-integer arithmetic (u128) written from the statement.
use crate::runner::*;
use crate::util::guard;
use crate::viol;
use dlt_core::dlt::DltTimeStamp;
use proptest::prelude::*;
use serde::{Deserialize, Serialize};
use serde_json::{json, Value};

#[derive(Debug, Clone, Hash, PartialEq, Eq, Serialize, Deserialize)]
pub struct Case {
    /// units per second: 1000 (from_ms) or 1_000_000 (from_us)
    pub unit: u64,
    pub x: u64,
}

pub fn check(c: &Case) -> CheckResult {
    if c.unit != 1000 && c.unit != 1_000_000 {
        return Ok(Pass::new(false));
    }
    if (c.x / c.unit) >> 32 != 0 {
        return Ok(Pass::new(false).class("outside-domain")); // whole seconds do not fit 32 bits
    }
    // (whatever the constructors log is formatted, as a logger that prints would do)
    crate::oracle::format_logs(true);
    let name = if c.unit == 1000 { "from_ms" } else { "from_us" };
    let ts = guard(|| {
        if c.unit == 1000 {
            DltTimeStamp::from_ms(c.x)
        } else {
            DltTimeStamp::from_us(c.x)
        }
    })
    .map_err(|p| Violation::from_panic(&format!("DltTimeStamp::{}({})", name, c.x), &p))?;
    let got = ts.seconds as u128 * 1_000_000 + ts.microseconds as u128;
    let want = c.x as u128 * (1_000_000 / c.unit) as u128;
    if got != want {
        return Err(viol!(
            format!("{}:wrong-instant", name),
            "DltTimeStamp::{}({}) = {{seconds: {}, microseconds: {}}} denotes {} us, expected {} us",
            name, c.x, ts.seconds, ts.microseconds, got, want
        ));
    }
    if ts.microseconds >= 1_000_000 {
        return Err(viol!(
            format!("{}:micros-range", name),
            "DltTimeStamp::{}({}) has microseconds {} >= 1000000",
            name,
            c.x,
            ts.microseconds
        ));
    }
    let sub = c.x % c.unit != 0;
    let secs = c.x / c.unit != 0;
    Ok(Pass::new(sub && secs)
        .class(name)
        .class_if(sub, "subsecond!=0")
        .class_if(secs, "seconds!=0")
        .class_if(c.x / c.unit >= (1 << 31), "seconds>=2^31"))
}

fn boundaries(unit: u64) -> Vec<u64> {
    let max = (1u64 << 32) * unit - 1;
    let mut v = vec![
        0,
        1,
        2,
        999,
        1000,
        1001,
        999_999,
        1_000_000,
        1_000_001,
        1_500_000,
        1_000_005,
        max,
        max - 1,
        max - unit,
        max - unit + 1,
    ];
    for k in 0..64 {
        let p = 1u64 << k;
        for d in [p.wrapping_sub(1), p, p.wrapping_add(1)] {
            v.push(d);
        }
    }
    for m in [
        1u64,
        2,
        3,
        7,
        59,
        60,
        3600,
        86_400,
        4_294_967_295,
        4_294_967_294,
        2_147_483_648,
    ] {
        if let Some(b) = m.checked_mul(unit) {
            for d in [
                b.wrapping_sub(1),
                b,
                b.wrapping_add(1),
                b.wrapping_add(unit - 1),
                b.wrapping_add(unit / 2),
            ] {
                v.push(d);
            }
        }
    }
    v.retain(|x| x / unit < (1 << 32));
    v.sort();
    v.dedup();
    v
}

pub fn strategy() -> impl Strategy<Value = Case> {
    prop::sample::select(vec![1000u64, 1_000_000]).prop_flat_map(|unit| {
        let max = (1u64 << 32) * unit - 1;
        prop_oneof![
            4 => 0..=max,
            3 => (any::<u64>(), 0u32..64).prop_map(move |(v, s)| (v >> s).min(max)),
            2 => (0u64..(1 << 32), 0..unit).prop_map(move |(s, r)| s * unit + r),
            1 => (0u64..100_000, prop::sample::select(vec![0u64, 1, 2])).prop_map(move |(s, d)| (s * unit + d).min(max)),
        ]
        .prop_map(move |x| Case { unit, x })
    })
}

/// one block of call histories around a pseudo-randomly chosen second (a pure function of the block number, so the
/// whole history can be replayed from it)
fn history_block(b: u64) -> BlockReport {
    let mut rep = BlockReport::default();
    let judge = |unit: u64, x: u64, rep: &mut BlockReport| {
        let c = Case { unit, x };
        rep.evaluations += 1;
        match check(&c) {
            Ok(_) => rep.nontrivial += 1,
            Err(v) => {
                if rep.violation.is_none() {
                    rep.violation = Some((json!({"history_block": b, "failing_call": c}), v));
                }
            }
        }
    };
    let base_s = crate::util::splitmix64(0xC17 ^ b) % ((1u64 << 32) - 4) + 2;
    for unit in [1000u64, 1_000_000] {
        let start = base_s * unit + unit / 4;
        // descending walk with steps of about a tenth of a second across two second boundaries
        let mut x = start;
        for _ in 0..24 {
            judge(unit, x, &mut rep);
            x -= unit / 10 + 1;
        }
        // zig-zag around the boundary
        for (i, d) in [250u64, 900, 50, 999, 1, 500, 998, 2].iter().enumerate() {
            let off = d * unit / 1000;
            let x = if i % 2 == 0 {
                base_s * unit + off
            } else {
                base_s * unit - off.max(1)
            };
            judge(unit, x, &mut rep);
        }
    }
    // a message is stamped (also with a hand-built, un-normalised time stamp and with the wall clock) between the calls
    {
        use dlt_core::dlt::{Endianness, Message, MessageConfig, PayloadContent};
        let conf = MessageConfig {
            version: 1,
            counter: 0,
            endianness: Endianness::Little,
            ecu_id: None,
            session_id: None,
            timestamp: None,
            payload: PayloadContent::NonVerbose(1, vec![2, 3]),
            extended_header_info: None,
        };
        for (s, us) in [(base_s - 1, 1_000_000u32), (base_s, 999_999), (base_s, 0)] {
            let m = Message::new(conf.clone(), None);
            let stamped = guard(|| {
                m.add_storage_header(Some(DltTimeStamp {
                    seconds: s as u32,
                    microseconds: us,
                }))
                .as_bytes()
                .len()
            });
            std::hint::black_box(stamped.ok());
            judge(1000, base_s * 1000 + 250, &mut rep);
            judge(1_000_000, base_s * 1_000_000 + 250_000, &mut rep);
            judge(1000, (base_s - 1) * 1000 + 999, &mut rep);
        }
        // ... and a stored record is parsed on this thread (a reader that converts its own time stamps while it reads):
        // the instants on and next to the second boundaries around the record's storage time follow
        for (s, us) in [(base_s - 1, 900_000u32), (base_s, 0), (base_s, 999_999), (base_s - 1, 1_000_000)] {
            let m = Message::new(conf.clone(), None);
            let bytes = guard(|| m.add_storage_header(Some(DltTimeStamp { seconds: s as u32, microseconds: us })).as_bytes());
            if let Ok(bytes) = bytes {
                std::hint::black_box(guard(|| dlt_core::parse::dlt_message(&bytes, None, true).is_ok()).ok());
            }
            for d in [0u64, 1, 2] {
                judge(1_000_000, base_s * 1_000_000 + d, &mut rep);
                judge(1_000_000, base_s * 1_000_000 - 1 - d, &mut rep);
                judge(1000, base_s * 1000 + d, &mut rep);
                judge(1000, base_s * 1000 - 1 - d, &mut rep);
            }
            judge(1_000_000, (base_s + 1) * 1_000_000, &mut rep);
            judge(1000, (base_s + 1) * 1000, &mut rep);
        }
        let m = Message::new(conf, None);
        std::hint::black_box(guard(|| m.add_storage_header(None).as_bytes().len()).ok());
        judge(1000, base_s * 1000 + 251, &mut rep);
    }
    // the second the harness logger's own clock lies in (a log sink stamps its records with from_ms / from_us of its clock
    // on the calling thread, also from inside a conversion that logs)
    judge(1000, base_s * 1000 + 500, &mut rep);
    judge(1000, 1_700_000_000_255, &mut rep);
    judge(1_000_000, (base_s + 1) * 1_000_000 + 5, &mut rep);
    judge(1_000_000, 1_700_000_000_123_999, &mut rep);
    judge(1000, 1_699_999_999_999, &mut rep);
    // an input beyond the domain (whole seconds do not fit 32 bits: nothing is asserted about it, it may even panic)
    // directly followed by inputs in the last seconds of the domain
    if b % 64 == 0 {
        for unit in [1000u64, 1_000_000] {
            for beyond in [(1u64 << 32) * unit + unit / 4, (1u64 << 32) * unit, ((1u64 << 32) + 5) * unit + 1, u64::MAX] {
                std::hint::black_box(guard(|| if unit == 1000 { DltTimeStamp::from_ms(beyond) } else { DltTimeStamp::from_us(beyond) }).ok());
                judge(unit, ((1u64 << 32) - 1) * unit + unit * 9 / 10, &mut rep);
                judge(unit, ((1u64 << 32) - 1) * unit, &mut rep);
                judge(unit, ((1u64 << 32) - 2) * unit + unit - 1, &mut rep);
            }
        }
    }
    // two consecutive calls a little more than one second apart inside one power-of-two block of the unit (2^20 us /
    // 2^10 ms hold one second and a bit: some blocks contain two second boundaries)
    {
        let bus = ((base_s * 1_000_000) >> 20) << 20;
        for (lead, step) in [(5_000u64, 1_020_000u64), (1, 1_048_570), (20_000, 1_000_001), (900, 1_030_000)] {
            judge(1_000_000, bus + lead, &mut rep);
            judge(1_000_000, bus + lead + step, &mut rep);
        }
        let bms = ((base_s * 1000) >> 10) << 10;
        for (lead, step) in [(3u64, 1_010u64), (0, 1_023), (20, 1_001)] {
            judge(1000, bms + lead, &mut rep);
            judge(1000, bms + lead + step, &mut rep);
        }
    }
    // several independent clocks interleaved on one thread: clock A advances in sub-second steps across second
    // boundaries (forward, then backward) while unrelated instants B and C are converted between its steps
    let far = crate::util::splitmix64(0xC17F ^ b) % ((1u64 << 32) - 8) + 4;
    for unit in [1000u64, 1_000_000] {
        let a0 = base_s * unit - unit / 2;
        for k in 0..9u64 {
            judge(unit, a0 + k * (unit * 3 / 10), &mut rep);
            judge(unit, far * unit + unit / 7 + k, &mut rep);
            if k % 3 == 2 {
                judge(
                    unit,
                    (far ^ 0x5555) % ((1u64 << 32) - 1) * unit + unit - 1,
                    &mut rep,
                );
            }
        }
        for k in 0..9u64 {
            judge(
                unit,
                a0 + 8 * (unit * 3 / 10) - k * (unit * 3 / 10),
                &mut rep,
            );
            judge(unit, (far + 3) * unit + k, &mut rep);
        }
    }
    // both constructors alternately about instants less than a second apart
    let ms = base_s * 1000 - 100;
    for k in 0..12u64 {
        judge(1000, ms + k * 35, &mut rep);
        judge(1_000_000, (ms + k * 35) * 1000 + 350_000 + k, &mut rep);
        judge(1_000_000, (ms + k * 35) * 1000 - 350_000 - k, &mut rep);
    }
    if b == 5 {
        rep.sample = Some(
            json!({"around second": base_s, "histories": "descending walk, zig-zag, alternating from_ms/from_us"}),
        );
    }
    rep
}

/// Conversions made while a thread winds down (from the destructor of a thread-local object, as a per-thread log sink
/// that stamps a closing record would do), for the three possible histories of that thread: the object was registered
/// before the thread's first conversion, after it, or the thread never converted anything before.
struct TeardownProbe {
    tx: std::sync::mpsc::Sender<(Case, Option<String>)>,
    calls: Vec<Case>,
}
impl Drop for TeardownProbe {
    fn drop(&mut self) {
        crate::util::install_panic_hook();
        for c in &self.calls {
            let r = std::panic::catch_unwind(|| {
                if c.unit == 1000 {
                    DltTimeStamp::from_ms(c.x)
                } else {
                    DltTimeStamp::from_us(c.x)
                }
            });
            let verdict = match r {
                Ok(ts) => {
                    let got = ts.seconds as u128 * 1_000_000 + ts.microseconds as u128;
                    let want = c.x as u128 * (1_000_000 / c.unit) as u128;
                    (got != want || ts.microseconds >= 1_000_000).then(|| {
                        format!(
                            "= {{seconds: {}, microseconds: {}}}",
                            ts.seconds, ts.microseconds
                        )
                    })
                }
                Err(p) => Some(format!(
                    "panicked: {}",
                    p.downcast_ref::<String>()
                        .cloned()
                        .or_else(|| p.downcast_ref::<&str>().map(|s| s.to_string()))
                        .unwrap_or_default()
                )),
            };
            let _ = self.tx.send((c.clone(), verdict));
        }
    }
}
thread_local! {
    static PROBE: std::cell::RefCell<Option<TeardownProbe>> = const { std::cell::RefCell::new(None) };
}
fn teardown_block(b: u64) -> BlockReport {
    let mut rep = BlockReport::default();
    let s = crate::util::splitmix64(0x7EA2 ^ b) % ((1u64 << 32) - 4) + 2;
    for order in 0..3u8 {
        let (tx, rx) = std::sync::mpsc::channel();
        let calls = vec![
            Case {
                unit: 1000,
                x: s * 1000 + 250,
            },
            Case {
                unit: 1_000_000,
                x: s * 1_000_000 + 250_000,
            },
            Case {
                unit: 1000,
                x: (s + 1) * 1000 + 1,
            },
        ];
        let h = std::thread::spawn(move || {
            let before = |x: u64| {
                std::hint::black_box(
                    guard(|| {
                        (
                            DltTimeStamp::from_ms(x * 1000 + 7),
                            DltTimeStamp::from_us(x * 1_000_000 + 7),
                        )
                    })
                    .ok(),
                );
            };
            if order == 1 {
                before(s);
            }
            PROBE.with(|p| *p.borrow_mut() = Some(TeardownProbe { tx, calls }));
            if order == 0 {
                before(s);
            }
        });
        let _ = h.join();
        // hand-over: a thread that has never converted anything starts right after another thread ticked into second
        // s + 1; its first questions are about that second and the one before
        let fresh = std::thread::spawn(move || {
            let mut out = vec![];
            for c in [Case { unit: 1000, x: (s + 1) * 1000 + 300 }, Case { unit: 1_000_000, x: (s + 1) * 1_000_000 + 300_000 }, Case { unit: 1000, x: s * 1000 + 999 }, Case { unit: 1_000_000, x: s * 1_000_000 + 1 }] {
                out.push((c.clone(), check(&c)));
            }
            out
        });
        for (c, r) in fresh.join().unwrap_or_default() {
            rep.evaluations += 1;
            match r {
                Ok(_) => rep.nontrivial += 1,
                Err(mut v) => {
                    if rep.violation.is_none() {
                        v.msg = format!("{} (first conversions of a fresh thread, right after another thread converted instants of the seconds {} and {})", v.msg, s, s + 1);
                        rep.violation = Some((json!({"teardown_block": b, "failing_call": c}), v));
                    }
                }
            }
        }
        for (c, verdict) in rx.try_iter() {
            rep.evaluations += 1;
            match verdict {
                None => rep.nontrivial += 1,
                Some(what) => {
                    if rep.violation.is_none() {
                        let name = if c.unit == 1000 { "from_ms" } else { "from_us" };
                        let hist = [
                            "probe registered before the thread's first conversion",
                            "probe registered after the thread's first conversion",
                            "no earlier conversion on the thread",
                        ][order as usize];
                        rep.violation = Some((
                            json!({"teardown_block": b, "failing_call": c}),
                            viol!(format!("{}:during-thread-teardown", name), "DltTimeStamp::{}({}) called from a thread-local destructor while the thread winds down ({}) {}", name, c.x, hist, what),
                        ));
                    }
                }
            }
        }
    }
    rep.classes
        .push(("conversion-during-thread-teardown", rep.evaluations));
    rep
}

/// Thread hand-over, run as ONE block so that no other thread of the harness converts anything meanwhile: thread A walks
/// across a second boundary (in both constructors) and ends; a fresh thread B then asks about the second A ticked into,
/// the one before and the one after.  64 boundaries, both walking directions.
fn handover_block(_b: u64) -> BlockReport {
    let mut rep = BlockReport::default();
    for k in 0..64u64 {
        let s = crate::util::splitmix64(0x4A2D ^ k) % ((1u64 << 32) - 8) + 4;
        let up = k % 2 == 0;
        let a = std::thread::spawn(move || {
            let walk: Vec<u64> = if up { vec![s * 1000 - 100, s * 1000 + 250] } else { vec![s * 1000 + 250, s * 1000 - 100] };
            for ms in walk {
                std::hint::black_box(guard(|| (DltTimeStamp::from_ms(ms), DltTimeStamp::from_us(ms * 1000 + 1))).ok());
            }
        });
        let _ = a.join();
        let fresh = std::thread::spawn(move || {
            let mut out = vec![];
            for c in [
                Case { unit: 1000, x: s * 1000 + 300 },
                Case { unit: 1_000_000, x: s * 1_000_000 + 300_000 },
                Case { unit: 1000, x: (s - 1) * 1000 + 999 },
                Case { unit: 1_000_000, x: (s - 1) * 1_000_000 + 999_999 },
                Case { unit: 1000, x: (s + 1) * 1000 },
            ] {
                out.push((c.clone(), check(&c)));
            }
            out
        });
        for (c, r) in fresh.join().unwrap_or_default() {
            rep.evaluations += 1;
            match r {
                Ok(_) => rep.nontrivial += 1,
                Err(mut v) => {
                    if rep.violation.is_none() {
                        v.msg = format!("{} (among the first conversions of a fresh thread, right after another thread walked {} across the boundary of second {})", v.msg, if up { "up" } else { "down" }, s);
                        rep.violation = Some((json!({"handover_block": 0, "failing_call": c}), v));
                    }
                }
            }
        }
    }
    rep.classes.push(("first-conversions-of-a-fresh-thread", rep.evaluations));
    rep
}

/// the clock of the harness logger (`oracle::NullLogger` converts it on every record): also the first instant of the run
const ANCHOR_MS: u64 = 1_700_000_000_123;

pub fn run(run: &Run) {
    run.rule(
        "cases = (constructor, u64 input with input/unit-per-second < 2^32): enumerated boundaries (0, unit multiples +-1, powers of two +-1, \
         largest admissible values); the first and last 8 sub-second values of 1.2 M whole-second counts; 65536 inputs on either side of every \
         multiple (x1..x130) of every power of two 2^24..2^52; every input below 2^26 (thorough: from_ms below 2^37, from_us below 2^36); call histories on one thread (descending walks, zig-zag around second boundaries, both constructors alternately, two or three unrelated clocks interleaved, message stamping in between); conversions made from a thread-local destructor while a thread winds down (three registration orders) and the first conversions of a fresh thread right after another thread's; stored records parsed between the calls; then uniform / log-uniform / (seconds, remainder) random inputs; non-trivial = sub-second part != 0 and \
         whole seconds != 0; distinct by (constructor, input)",
    );
    run.assume("oracle: seconds*10^6 + microseconds == input expressed in microseconds, computed in u128; overflow checks are on in the build");
    run.regressions(&replay);
    // the first instants this process converts (an implementation may anchor on them), then — in the boundary section —
    // the instants a power of two of the unit later / earlier, 0..130 short of it
    let _ = check(&Case { unit: 1000, x: ANCHOR_MS });
    let _ = check(&Case { unit: 1_000_000, x: ANCHOR_MS * 1000 + 456 });
    let mut all = vec![];
    for k in [10u32, 16, 20, 24, 30, 31, 32, 33, 40] {
        for d in 0..=130u64 {
            for (unit, a) in [(1000u64, ANCHOR_MS), (1_000_000, ANCHOR_MS * 1000 + 456)] {
                all.push(Case { unit, x: a + (1u64 << k) - d });
                all.push(Case { unit, x: a + (1u64 << k) + d });
                if a > (1u64 << k) + d {
                    all.push(Case { unit, x: a - (1u64 << k) - d });
                }
            }
        }
    }
    all.retain(|c| (c.x / c.unit) >> 32 == 0);
    for unit in [1000u64, 1_000_000] {
        for x in boundaries(unit) {
            all.push(Case { unit, x });
        }
    }
    let all = &all;
    run.enumerate("boundaries", all.len() as u64, false, |i| {
        let c = &all[i as usize];
        let mut r = BlockReport {
            evaluations: 1,
            ..Default::default()
        };
        match check(c) {
            Ok(p) => {
                r.nontrivial = p.nontrivial as u64;
                r.classes = p.classes.iter().map(|c| (*c, 1)).collect();
                if i % 97 == 0 {
                    r.sample = Some(json!(c));
                }
            }
            Err(v) => r.violation = Some((json!(c), v)),
        }
        r
    });
    // dense ranges: the fast oracle (the statement's equation in u64) over a whole range under one panic guard; a range
    // that fails is re-walked input by input with the full check to name the first failing input
    let sweep = |unit: u64, from: u64, to: u64, rep: &mut BlockReport| {
        let max = (1u64 << 32) * unit - 1;
        let to = to.min(max);
        if from > to {
            return;
        }
        let factor = 1_000_000 / unit;
        crate::oracle::format_logs(true);
        let ok = guard(|| {
            let mut good = true;
            let mut x = from;
            loop {
                let ts = if unit == 1000 {
                    DltTimeStamp::from_ms(x)
                } else {
                    DltTimeStamp::from_us(x)
                };
                good &= ts.seconds as u64 * 1_000_000 + ts.microseconds as u64 == x * factor
                    && ts.microseconds < 1_000_000;
                if x == to {
                    break;
                }
                x += 1;
            }
            good
        });
        rep.evaluations += to - from + 1;
        rep.nontrivial += to - from + 1;
        if !matches!(ok, Ok(true)) && rep.violation.is_none() {
            let mut x = from;
            loop {
                let c = Case { unit, x };
                if let Err(v) = check(&c) {
                    rep.violation = Some((json!(c), v));
                    break;
                }
                if x == to {
                    break;
                }
                x += 1;
            }
        }
    };
    // (1) the edges of every second: all whole-second counts up to 200 000 and 2^20 counts spread over the whole range,
    //     each with the first and last 8 sub-second values
    run.enumerate("second-edges", 2 * 1249, false, |b| {
        let mut rep = BlockReport::default();
        let unit = if b % 2 == 0 { 1000u64 } else { 1_000_000 };
        let blk = b / 2;
        let seconds: Vec<u64> = if blk < 200 { (blk * 1000..(blk + 1) * 1000).collect() } else { ((blk - 200) * 1000..(blk - 199) * 1000).map(|i| (i * 4093 + (i >> 3)) % (1 << 32)).collect() };
        for s in seconds {
            sweep(unit, s * unit, s * unit + 7, &mut rep);
            sweep(unit, s * unit + unit - 8, s * unit + unit - 1, &mut rep);
        }
        if b == 7 {
            rep.sample = Some(json!({"unit": unit, "seconds": "7000..7999", "sub-second": "0..7 and unit-8..unit-1"}));
        }
        rep
    });
    // (2) carry boundaries of multi-word arithmetic: 65536 inputs on either side of every multiple (x1..x130) of every
    //     power of two 2^24 .. 2^52
    run.enumerate("word-boundaries", 2 * 29 * 130, false, |b| {
        let mut rep = BlockReport::default();
        let unit = if b % 2 == 0 { 1000u64 } else { 1_000_000 };
        let p = 24 + (b / 2) % 29;
        let k = 1 + (b / 2) / 29;
        if let Some(centre) = (1u64 << p).checked_mul(k) {
            if centre / unit < (1 << 32) {
                sweep(unit, centre - 65536, centre + 65536, &mut rep);
            }
        }
        if b == 11 {
            rep.sample = Some(
                json!({"unit": unit, "centre": format!("{} * 2^{}", k, p), "range": "+-65536"}),
            );
        }
        rep
    });
    // (3) whole ranges: quick = every input below 2^26; thorough = from_ms below 2^37 and from_us below 2^36 (the whole from_ms domain of
    //     2^32 * 1000 inputs would take about two hours on 16 cores)
    let (ms_blocks, us_blocks, block) = match run.tier {
        Tier::Quick => (1u64, 1u64, 1u64 << 26),
        Tier::Thorough => (1 << 9, 1 << 8, 1 << 28),
    };
    run.enumerate("dense-from_ms", ms_blocks, false, |b| {
        let mut rep = BlockReport::default();
        sweep(1000, b * block, (b + 1) * block - 1, &mut rep);
        if b == 0 {
            rep.sample =
                Some(json!({"unit": 1000, "range": format!("{}..{}", b * block, (b + 1) * block)}));
        }
        rep
    });
    run.enumerate("dense-from_us", us_blocks, false, |b| {
        let mut rep = BlockReport::default();
        sweep(1_000_000, b * block, (b + 1) * block - 1, &mut rep);
        rep
    });
    // (4) call histories on one thread: the constructors are pure functions, so the answer must not depend on what was
    //     asked before — descending dense walks across second boundaries, zig-zag walks with steps below one second,
    //     and both constructors asked alternately about neighbouring instants
    run.enumerate("call-histories", 4096, false, history_block);
    // (5) conversions made from a thread-local destructor while a thread winds down ("building it never panics")
    run.enumerate("thread-teardown", 48, false, teardown_block);
    run.enumerate("thread-hand-over", 1, false, handover_block);
    run.random(
        "random",
        run.cases(2_000_000, 40_000_000),
        0.5,
        strategy,
        check,
    );
}

pub fn replay(section: &str, case: &Value) -> Option<CheckResult> {
    if let Some(b) = case.get("enum_block").and_then(|b| b.as_u64()) {
        // a block named by the watchdog / crash supervisor
        let rep = match section {
            "call-histories" => history_block(b),
            "thread-teardown" => teardown_block(b),
            "thread-hand-over" => handover_block(b),
            _ => return None,
        };
        return Some(match rep.violation {
            Some((_, v)) => Err(v),
            None => Ok(Pass::new(true).class("enumeration-block")),
        });
    }
    if section == "call-histories" {
        // re-execute the whole history of that block on this thread
        let b = case["history_block"].as_u64()?;
        let rep = history_block(b);
        return Some(match rep.violation {
            Some((_, v)) => Err(v),
            None => Ok(Pass::new(true).class("call-history")),
        });
    }
    if section == "thread-hand-over" {
        let rep = handover_block(0);
        return Some(match rep.violation {
            Some((_, v)) => Err(v),
            None => Ok(Pass::new(true).class("thread-hand-over")),
        });
    }
    if section == "thread-teardown" {
        let rep = teardown_block(case["teardown_block"].as_u64()?);
        return Some(match rep.violation {
            Some((_, v)) => Err(v),
            None => Ok(Pass::new(true).class("thread-teardown")),
        });
    }
    case_from::<Case>(case).map(|c| check(&c))
}
