//! C05 — every proper prefix of a valid message is reported incomplete, with a safe hint.
use crate::gen::message as g;
use crate::model::*;
use crate::refcodec::{self, Role};
use crate::runner::*;
use crate::util::{guard, hex_short};
use crate::viol;
use dlt_core::parse::{dlt_consume_msg, dlt_message, DltParseError};
use proptest::prelude::*;
use serde::{Deserialize, Serialize};
use serde_json::Value as Json;

#[derive(Debug, Clone, Hash, PartialEq, Eq, Serialize, Deserialize)]
pub struct Case {
    pub msg: RMsg,
}

fn cuts_for(len: usize, map: &[refcodec::Field]) -> Vec<usize> {
    if len <= 4096 {
        return (0..len).collect();
    }
    let mut v: Vec<usize> = (0..96).collect();
    v.extend(len - 64..len);
    for f in map {
        if f.end - f.start >= 2 || matches!(f.role, Role::LenPrefix | Role::TypeInfo) {
            v.push(f.start);
            v.push((f.start + f.end) / 2);
            v.push(f.end - 1);
            v.push(f.end);
        }
    }
    for i in 0..256 {
        v.push(i * len / 256);
    }
    v.retain(|c| *c < len);
    v.sort();
    v.dedup();
    v
}

pub fn check(c: &Case) -> CheckResult {
    let m = to_crate(&c.msg);
    let bytes =
        guard(|| m.as_bytes()).map_err(|p| Violation::from_panic("Message::as_bytes", &p))?;
    let (_, map) = refcodec::encode_with_map(&c.msg);
    let storage = c.msg.storage.is_some();
    let len = bytes.len();
    let cuts = cuts_for(len, &map);
    // one of 7 filter configurations per message (chosen by the message itself, so that the case stays one value)
    let fidx = 1 + (crate::util::hash_of(&c.msg) % 7) as u8;
    let filter = crate::oracle::filter_by_index(fidx);
    let mut pass = Pass::new(false);
    let mut in_field = 0u64;
    for &cut in &cuts {
        let prefix = &bytes[..cut];
        let role = map
            .iter()
            .find(|f| f.start < cut && cut < f.end)
            .map(|f| f.role);
        let role_s = role
            .map(|r| format!("{:?}", r))
            .unwrap_or_else(|| "boundary".to_string());
        let r = guard(|| dlt_message(prefix, None, storage).map(|(rest, pm)| (rest.len(), pm)))
            .map_err(|p| {
                Violation::from_panic(
                    &format!(
                        "dlt_message on the {}-byte prefix of a {}-byte message",
                        cut, len
                    ),
                    &p,
                )
            })?;
        match r {
            Err(DltParseError::IncompleteParse { needed }) => {
                if let Some(n) = needed {
                    if n.get() > len - cut {
                        return Err(viol!(
                            format!("prefix:{}:hint-too-large", role_s),
                            "prefix of {} of {} bytes (cut inside {}): hint says {} more bytes are needed but only {} are missing; message={}",
                            cut, len, role_s, n, len - cut, hex_short(&bytes)
                        ));
                    }
                    pass.classes.push("hinted");
                }
            }
            other => {
                return Err(viol!(
                    format!("prefix:{}:not-incomplete", role_s),
                    "prefix of {} of {} bytes (cut inside {}, storage={}) is not reported incomplete: {}; message={}",
                    cut, len, role_s, storage, short_dbg(&other), hex_short(&bytes)
                ))
            }
        }
        // under a filter configuration a prefix is incomplete as well (never a filtered-out marker)
        if let Some(f) = &filter {
            let r = guard(|| {
                dlt_message(prefix, Some(f), storage).map(|(rest, pm)| (rest.len(), pm))
            })
            .map_err(|p| {
                Violation::from_panic(
                    &format!(
                        "dlt_message with filter #{} on the {}-byte prefix of a {}-byte message",
                        fidx, cut, len
                    ),
                    &p,
                )
            })?;
            match r {
                Err(DltParseError::IncompleteParse { needed }) => {
                    if let Some(n) = needed {
                        if n.get() > len - cut {
                            return Err(viol!(format!("prefix:{}:filter:hint-too-large", role_s), "prefix of {} of {} bytes with filter #{}: hint {} > missing {}", cut, len, fidx, n, len - cut));
                        }
                    }
                }
                other => {
                    return Err(viol!(
                        format!("prefix:{}:filter:not-incomplete", role_s),
                        "prefix of {} of {} bytes (cut inside {}, storage={}, filter #{}) is not reported incomplete: {}; message={}",
                        cut, len, role_s, storage, fidx, short_dbg(&other), hex_short(&bytes)
                    ))
                }
            }
        }
        if storage {
            let r = guard(|| dlt_consume_msg(prefix).map(|(rest, c)| (rest.len(), c))).map_err(
                |p| Violation::from_panic(&format!("dlt_consume_msg on a {}-byte prefix", cut), &p),
            )?;
            match (cut, r) {
                (0, Ok((_, None))) => {}
                (c, Err(DltParseError::IncompleteParse { needed })) if c > 0 => {
                    if let Some(n) = needed {
                        if n.get() > len - cut {
                            return Err(viol!(format!("skipper-prefix:{}:hint-too-large", role_s), "dlt_consume_msg on {} of {} bytes: hint {} > missing {}", cut, len, n, len - cut));
                        }
                    }
                }
                (_, other) => {
                    return Err(viol!(
                        format!("skipper-prefix:{}:not-incomplete", role_s),
                        "dlt_consume_msg on the prefix of {} of {} bytes (cut inside {}) returned {}; message={}",
                        cut, len, role_s, short_dbg(&other), hex_short(&bytes)
                    ))
                }
            }
        }
        if matches!(
            role,
            Some(
                Role::LenPrefix
                    | Role::Value
                    | Role::TypeInfo
                    | Role::Len
                    | Role::U32Field
                    | Role::StorageTime
                    | Role::Pattern
                    | Role::Id
                    | Role::Text
            )
        ) {
            in_field += 1;
        }
    }
    pass.subcases = cuts.len() as u64;
    pass.nontrivial = in_field > 0;
    pass.classes.push(c.msg.payload_kind());
    pass.classes
        .push(if storage { "storage" } else { "no-storage" });
    if len > 4096 {
        pass.classes.push("selected-cuts(len>4096)");
    }
    pass.classes.sort();
    pass.classes.dedup();
    Ok(pass)
}

pub fn strategy() -> impl Strategy<Value = Case> {
    prop_oneof![
        12 => g::message(g::MsgParams { large: false, free_noar: true, ..Default::default() }),
        1 => g::message(g::MsgParams { free_noar: true, ..Default::default() }),
    ]
    .prop_map(|msg| Case { msg })
}

pub fn run(run: &Run) {
    run.rule(
        "cases = well-formed messages x storage mode; per message ALL cut positions 0..len-1 are enumerated (messages <= 4 KiB; for larger ones the \
         first 96 / last 64 bytes, start/middle/end of every multi-byte field and length prefix from the reference encoder's field map, and 256 spread \
         cuts); each prefix must be IncompleteParse with hint in 1..=missing, without a filter and under one of 7 filter configurations, dlt_consume_msg likewise (no message on the empty prefix); non-trivial = \
         message with at least one cut strictly inside a multi-byte field; distinct by message; sub_evaluations counts the prefixes",
    );
    run.regressions(&replay);
    run.random(
        "prefixes",
        run.cases(400_000, 4_000_000),
        0.5,
        strategy,
        check,
    );
}

pub fn replay(_section: &str, case: &Json) -> Option<CheckResult> {
    case_from::<Case>(case).map(|c| check(&c))
}
