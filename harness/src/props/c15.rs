//! C15 — computed lengths equal serialised lengths; built messages are self-consistent.
//! Oracle: reference-encoded payload length / storage header, constructor invariants, parse-back.
use crate::gen::message as g;
use crate::model::*;
use crate::refcodec;
use crate::runner::*;
use crate::util::{guard, hex_short};
use crate::viol;
use byteorder::{BigEndian, LittleEndian};
use dlt_core::dlt::*;
use dlt_core::parse::{dlt_message, ParsedMessage};
use proptest::prelude::*;
use serde::{Deserialize, Serialize};
use serde_json::Value as Json;

#[derive(Debug, Clone, Hash, PartialEq, Eq, Serialize, Deserialize)]
pub enum Case {
    /// a message configuration; `twist` makes it non-representable on the wire (0 = none)
    Config {
        msg: RMsg,
        ts: (u32, u32),
        twist: u8,
    },
    /// an argument whose kind is bool / float and a value of `val`'s variant
    Valid { kind: RKind, val: RVal },
}

fn config_of(msg: &RMsg, twist: u8) -> (MessageConfig, bool) {
    let mut ext = msg.ext.as_ref().map(|e| ExtendedHeaderConfig {
        message_type: message_type_of(e.msin),
        app_id: e.apid.clone(),
        context_id: e.ctid.clone(),
    });
    let mut payload = payload_to_crate(msg);
    let mut representable = true;
    match twist {
        3 => {
            // variable-info flag set but name / unit left out: "any configuration" includes it; the writer emits
            // empty names, so the message is not the value that parses back, but all lengths must still agree
            if let PayloadContent::Verbose(args) = &mut payload {
                for (i, a) in args.iter_mut().enumerate() {
                    if a.type_info.has_variable_info {
                        if i % 2 == 0 {
                            a.name = None;
                        }
                        a.unit = None;
                        representable = false;
                    }
                }
            }
        }
        1 if ext.is_some() && !matches!(payload, PayloadContent::NonVerbose(..)) => {
            ext = None; // verbose / control / network payload without extended header
            representable = false;
        }
        2 if ext.is_some() => {
            // message type that contradicts the payload kind
            let e = ext.as_mut().unwrap();
            let is_nw = matches!(e.message_type, MessageType::NetworkTrace(_));
            let is_ctrl = matches!(e.message_type, MessageType::Control(_));
            match &payload {
                PayloadContent::Verbose(_) if !is_nw => {
                    e.message_type = MessageType::NetworkTrace(NetworkTraceType::Can);
                    representable = false;
                }
                PayloadContent::NetworkTrace(_) => {
                    e.message_type = MessageType::Log(LogLevel::Info);
                    representable = false;
                }
                PayloadContent::ControlMsg(..) => {
                    e.message_type = MessageType::Log(LogLevel::Warn);
                    representable = false;
                }
                PayloadContent::NonVerbose(..) if !is_ctrl => {
                    e.message_type = MessageType::Control(ControlType::Request);
                    representable = false;
                }
                _ => {}
            }
        }
        _ => {}
    }
    (
        MessageConfig {
            version: msg.htyp >> 5,
            counter: msg.mcnt,
            endianness: if msg.big_endian() {
                Endianness::Big
            } else {
                Endianness::Little
            },
            ecu_id: msg.ecu.clone(),
            session_id: msg.seid,
            timestamp: msg.tmsp,
            payload,
            extended_header_info: ext,
        },
        representable,
    )
}

fn check_config(msg: &RMsg, ts: (u32, u32), twist: u8) -> CheckResult {
    let kind = msg.payload_kind();
    // argument lengths
    if let RPayload::Verbose(args) = &msg.payload {
        if !msg.is_network_trace() {
            for a in args {
                let ca = arg_to_crate(a);
                let (l, be, le) = guard(|| {
                    (
                        ca.len(),
                        ca.as_bytes::<BigEndian>().len(),
                        ca.as_bytes::<LittleEndian>().len(),
                    )
                })
                .map_err(|p| Violation::from_panic("Argument::len / as_bytes", &p))?;
                if l != be || l != le {
                    return Err(viol!(
                        format!("arg-len:{}", g::kind_label(a.ty.kind)),
                        "Argument::len() = {} but as_bytes gives {} (BE) / {} (LE) bytes for {}",
                        l,
                        be,
                        le,
                        short_dbg(&ca)
                    ));
                }
            }
        }
    }
    let (conf, representable) = config_of(msg, twist);
    let storage = msg.storage.as_ref().map(|s| StorageHeader {
        timestamp: DltTimeStamp {
            seconds: s.secs,
            microseconds: s.micros,
        },
        ecu_id: s.ecu.clone(),
    });
    let conf2 = conf.clone();
    let m = guard(move || Message::new(conf2, storage))
        .map_err(|p| Violation::from_panic("Message::new", &p))?;
    let want_pl = refcodec::payload_len(msg);
    if twist != 3 && m.header.payload_length as usize != want_pl {
        return Err(viol!(
            format!("new:{}:payload-length", kind),
            "Message::new recorded payload_length {} but the serialised payload has {} bytes",
            m.header.payload_length,
            want_pl
        ));
    }
    let bytes =
        guard(|| m.as_bytes()).map_err(|p| Violation::from_panic("Message::as_bytes", &p))?;
    let sh = if m.storage_header.is_some() { 16 } else { 0 };
    // the recorded payload length is the number of payload bytes the writer actually emits (whatever the configuration)
    let emitted_pl = bytes.len() as i64 - sh as i64 - headers_len(from_crate(&m).msg.htyp) as i64;
    if m.header.payload_length as i64 != emitted_pl {
        return Err(viol!(format!("new:{}:payload-length-vs-emitted", kind), "Message::new recorded payload_length {} but as_bytes emits {} payload bytes (twist {})", m.header.payload_length, emitted_pl, twist));
    }
    if m.byte_len() as usize != bytes.len() - sh {
        return Err(viol!(
            format!("new:{}:byte-len", kind),
            "byte_len() = {} but the serialisation without storage header has {} bytes",
            m.byte_len(),
            bytes.len() - sh
        ));
    }
    if let Some(e) = &m.extended_header {
        let (want_verbose, want_noar) = match &conf.payload {
            PayloadContent::Verbose(a) => (true, a.len()),
            PayloadContent::NetworkTrace(s) => (true, s.len()),
            _ => (false, 0),
        };
        if e.verbose != want_verbose || e.argument_count as usize != want_noar {
            return Err(viol!(
                format!("new:{}:verbose-noar", kind),
                "Message::new set verbose={} argument_count={} for a {} payload with {} elements (expected verbose={} count={})",
                e.verbose, e.argument_count, kind, want_noar, want_verbose, want_noar
            ));
        }
    }
    if m.header.has_extended_header != conf.extended_header_info.is_some() {
        return Err(viol!(
            "new:ueh-flag",
            "has_extended_header = {} but extended header info present = {}",
            m.header.has_extended_header,
            conf.extended_header_info.is_some()
        ));
    }
    if representable {
        let res = guard(|| {
            dlt_message(&bytes, None, m.storage_header.is_some()).map(|(r, pm)| (r.len(), pm))
        })
        .map_err(|p| Violation::from_panic("dlt_message on a built message", &p))?;
        match res {
            Ok((0, ParsedMessage::Item(m2))) => {
                msg_eq_bits(&m, &m2).map_err(|d| {
                    viol!(
                        format!("new:{}:parse-back-differs", kind),
                        "built message does not parse back to itself: {} (bytes={})",
                        d,
                        hex_short(&bytes)
                    )
                })?;
            }
            other => {
                return Err(viol!(
                    format!("new:{}:parse-back", kind),
                    "built message does not parse back: {} (bytes={})",
                    short_dbg(&other),
                    hex_short(&bytes)
                ))
            }
        }
    }
    // storage-header helper
    let plain = Message {
        storage_header: None,
        ..m.clone()
    };
    let plain_bytes =
        guard(|| plain.as_bytes()).map_err(|p| Violation::from_panic("Message::as_bytes", &p))?;
    let with = guard(|| {
        plain
            .clone()
            .add_storage_header(Some(DltTimeStamp {
                seconds: ts.0,
                microseconds: ts.1,
            }))
            .as_bytes()
    })
    .map_err(|p| Violation::from_panic("add_storage_header(Some)", &p))?;
    let ecu = msg.ecu.clone().unwrap_or_else(|| "ECU".to_string());
    let mut want = refcodec::encode_storage(&RStorage {
        secs: ts.0,
        micros: ts.1,
        ecu: ecu.clone(),
    });
    want.extend_from_slice(&plain_bytes);
    if with != want {
        return Err(viol!(
            "add-storage-header",
            "add_storage_header(Some({:?})) gives {} but expected {}",
            ts,
            hex_short(&with[..with.len().min(40)]),
            hex_short(&want[..want.len().min(40)])
        ));
    }
    // the same on the message as built (it may already carry a storage header: that one is replaced)
    let restamped = guard(|| {
        m.clone()
            .add_storage_header(Some(DltTimeStamp {
                seconds: ts.0,
                microseconds: ts.1,
            }))
            .as_bytes()
    })
    .map_err(|p| {
        Violation::from_panic(
            "add_storage_header(Some) on a message with storage header",
            &p,
        )
    })?;
    if restamped != want {
        return Err(viol!(
            "add-storage-header:restamp",
            "add_storage_header(Some({:?})) on a message that {} gives {} but expected {}",
            ts,
            if m.storage_header.is_some() {
                "already carries a storage header"
            } else {
                "has none"
            },
            hex_short(&restamped[..restamped.len().min(40)]),
            hex_short(&want[..want.len().min(40)])
        ));
    }
    // ... and stamped again with exactly the time its storage header already carries (the ECU id of that header may
    // be another one, e.g. a recorder's): time and the header ECU id of the message, nothing kept from the old header
    if let Some(sh) = &m.storage_header {
        let same_time = DltTimeStamp { seconds: sh.timestamp.seconds, microseconds: sh.timestamp.microseconds };
        let again = guard(|| m.clone().add_storage_header(Some(same_time)).as_bytes())
            .map_err(|p| Violation::from_panic("add_storage_header(Some(time of the existing storage header))", &p))?;
        let mut want2 = refcodec::encode_storage(&RStorage { secs: sh.timestamp.seconds, micros: sh.timestamp.microseconds, ecu: ecu.clone() });
        want2.extend_from_slice(&plain_bytes);
        if again != want2 {
            return Err(viol!(
                "add-storage-header:restamp-same-time",
                "add_storage_header with the time of the storage header the message already carries (stored by {:?}) gives {} but expected {}",
                sh.ecu_id,
                hex_short(&again[..again.len().min(40)]),
                hex_short(&want2[..want2.len().min(40)])
            ));
        }
    }
    let now = guard(|| plain.clone().add_storage_header(None).as_bytes())
        .map_err(|p| Violation::from_panic("add_storage_header(None)", &p))?;
    let want_tail = &want[12..];
    if now.len() != plain_bytes.len() + 16 || &now[..4] != b"DLT\x01" || &now[12..] != want_tail {
        return Err(viol!(
            "add-storage-header-now",
            "add_storage_header(None) gives {} ",
            hex_short(&now[..now.len().min(40)])
        ));
    }
    let has_fx_or_vari = matches!(&msg.payload, RPayload::Verbose(a) if a.iter().any(|x| x.ty.vari || x.fixp.is_some()));
    let mut pass = Pass::new(
        want_pl > 0
            && (has_fx_or_vari
                || !matches!(msg.payload, RPayload::Verbose(_))
                || msg.is_network_trace()),
    );
    pass.classes = g::classes_of(msg);
    Ok(pass
        .class_if(!representable, "non-representable-config")
        .class_if(has_fx_or_vari, "vari-or-fixed-point"))
}

fn check_valid(kind: RKind, val: &RVal) -> CheckResult {
    let vk = match val {
        RVal::Bool(_) => RKind::Bool,
        RVal::U(_) => RKind::Uint(32),
        RVal::I(_) => RKind::Sint(64),
        RVal::F32(_) => RKind::Float(32),
        RVal::F64(_) => RKind::Float(64),
        RVal::Str(_) => RKind::Str,
        RVal::Raw(_) => RKind::Raw,
    };
    let arg = Argument {
        type_info: type_to_crate(&RType {
            kind,
            vari: false,
            trai: false,
            scod: 0,
        }),
        name: None,
        unit: None,
        fixed_point: None,
        value: value_to_crate(vk, val),
    };
    let got = guard(|| arg.valid()).map_err(|p| Violation::from_panic("Argument::valid", &p))?;
    let typed = matches!(kind, RKind::Bool | RKind::Float(_));
    let matches_kind = vk == kind;
    if typed && got != matches_kind {
        return Err(viol!(
            format!("valid:{}", g::kind_label(kind)),
            "valid() = {} for kind {:?} carrying {:?}",
            got,
            kind,
            arg.value
        ));
    }
    Ok(Pass::new(typed && !matches_kind)
        .class(if typed {
            "valid:typed-kind"
        } else {
            "valid:other-kind"
        })
        .class_if(typed && !matches_kind, "valid:mismatch"))
}

pub fn check(c: &Case) -> CheckResult {
    match c {
        Case::Config { msg, ts, twist } => check_config(msg, *ts, *twist),
        Case::Valid { kind, val } => check_valid(*kind, val),
    }
}

pub fn strategy() -> impl Strategy<Value = Case> {
    prop_oneof![
        12 => (g::message(g::MsgParams::default()), any::<(u32, u32)>(), prop_oneof![8 => Just(0u8), 1 => Just(1u8), 1 => Just(2u8), 1 => Just(3u8)])
            .prop_map(|(msg, ts, twist)| Case::Config { msg, ts, twist }),
        1 => (prop::sample::select(vec![RKind::Bool, RKind::Float(32), RKind::Float(64), RKind::Uint(32), RKind::Str]), g::kind())
            .prop_flat_map(|(kind, vk)| g::value_for(vk, 20).prop_map(move |val| Case::Valid { kind, val })),
    ]
}

pub fn run(run: &Run) {
    run.rule(
        "cases = message configurations (every payload kind, optional fields, extended header present/absent, sizes up to the 16-bit limit, \
         10% twisted into configurations the wire format cannot represent) with a storage time stamp, and (kind, value) pairs for valid(); \
         non-trivial = non-empty payload that is not plain verbose or has variable-info / fixed-point arguments, or a mismatched typed kind; \
         distinct by the whole case",
    );
    run.assume("parse-back is asserted only for representable configurations (payload kind consistent with extended-header presence and message type); add_storage_header(None): the clock value is not asserted");
    run.regressions(&replay);
    run.random(
        "configs",
        run.cases(300_000, 4_000_000),
        0.25,
        strategy,
        check,
    );
}

pub fn replay(_section: &str, case: &Json) -> Option<CheckResult> {
    case_from::<Case>(case).map(|c| check(&c))
}
