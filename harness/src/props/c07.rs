//! C07 — the blocking reader equals slice parsing for every fragmentation of the source.
use super::readers::*;
use crate::runner::*;
use crate::util::hex_short;
use crate::viol;
use proptest::prelude::*;
use serde::{Deserialize, Serialize};
use serde_json::Value as Json;

#[derive(Debug, Clone, Hash, PartialEq, Eq, Serialize, Deserialize)]
pub struct Case {
    #[serde(with = "crate::util::hexser")]
    pub stream: Vec<u8>,
    pub storage: bool,
    pub schedule: Schedule,
    pub reader_kind: u8,
    pub filter: u8,
    /// a second filter configuration passed at the odd-numbered calls (the filter is an argument of every call)
    #[serde(default)]
    pub filter2: Option<u8>,
    /// also run the systematic constant-chunk schedules (short streams only)
    pub systematic: bool,
}

fn compare(c: &Case, sched: &Schedule, api_sel: u64, pass: &mut Pass) -> Result<(), Violation> {
    let slices = api_sel;
    let filter = filter_for(c.filter);
    let reference = reference(&c.stream, c.storage, filter.as_ref(), slices);
    let (got, trace) = drive_blocking(
        &c.stream,
        c.storage,
        sched,
        c.reader_kind,
        filter.as_ref(),
        slices,
    );
    let api = if slices == API_SLICE {
        "next_message_slice"
    } else if slices == API_MESSAGE {
        "read_message"
    } else {
        "alternating"
    };
    let ctx = || {
        format!(
            "storage={} reader_kind={} filter={} schedule={:?} stream={}",
            c.storage,
            c.reader_kind,
            c.filter,
            sched,
            hex_short(&c.stream)
        )
    };
    for o in &got {
        match o {
            Outcome::Panic(p) => {
                let hostile = if reference.hostile_at.is_some() {
                    "declared-length<4"
                } else {
                    "other"
                };
                return Err(viol!(
                    format!("reader:{}:panic:{}", api, hostile),
                    "{} panicked: {}; {}",
                    api,
                    p,
                    ctx()
                ));
            }
            Outcome::Runaway(w) => {
                return Err(viol!(
                    format!("reader:{}:runaway", api),
                    "{} did not reach end of stream: {}; {}",
                    api,
                    w,
                    ctx()
                ))
            }
            _ => {}
        }
    }
    let n = reference.outcomes.len();
    let prescribed = match reference.hostile_at {
        Some(k) => k, // only the outcomes before the hostile length are prescribed
        None => n,
    };
    if got.len() < prescribed || (reference.hostile_at.is_none() && got.len() != n) {
        return Err(viol!(
            format!("reader:{}:sequence-length", api),
            "{} produced {} outcomes, slice cutting prescribes {}: got [{}] expected [{}]; {}",
            api,
            got.len(),
            n,
            got.iter().map(|o| o.short()).collect::<Vec<_>>().join(", "),
            reference
                .outcomes
                .iter()
                .map(|o| o.short())
                .collect::<Vec<_>>()
                .join(", "),
            ctx()
        ));
    }
    for i in 0..prescribed {
        if !got[i].same(&reference.outcomes[i]) {
            let what = match (&got[i], &reference.outcomes[i]) {
                (Outcome::Item(_) | Outcome::Slice(_), Outcome::End | Outcome::Err(_)) => {
                    "message-from-truncated-tail"
                }
                (Outcome::End | Outcome::Err(_), Outcome::Item(_) | Outcome::Slice(_)) => {
                    "message-lost"
                }
                _ => "outcome-differs",
            };
            return Err(viol!(
                format!("reader:{}:{}", api, what),
                "{} outcome #{} is {} but slice cutting gives {}; {}",
                api,
                i,
                got[i].short(),
                reference.outcomes[i].short(),
                ctx()
            ));
        }
    }
    // "no matter how the source fragments its reads": behind a declared length below 4 nothing is prescribed about WHAT
    // the reader does next, but whatever it does must not depend on the fragmentation — the whole outcome sequence
    // equals the one obtained when every read delivers everything
    if reference.hostile_at.is_some() {
        let (whole, _) = drive_blocking(&c.stream, c.storage, &Schedule::always_ready(), c.reader_kind, filter.as_ref(), slices);
        if whole.len() != got.len() || whole.iter().zip(got.iter()).any(|(a, b)| !a.same(b)) {
            return Err(viol!(
                format!("reader:{}:fragmentation-dependent", api),
                "{}: the outcomes depend on how the source fragments its reads: [{}] under this schedule, [{}] with whole reads; {}",
                api,
                got.iter().map(|o| o.short()).collect::<Vec<_>>().join(", "),
                whole.iter().map(|o| o.short()).collect::<Vec<_>>().join(", "),
                ctx()
            ));
        }
        pass.classes.push("declared-length<4:fragmentation-independence");
    }
    // classification of the schedule against the message layout
    let s = if c.storage { 16 } else { 0 };
    let splits_header = trace.boundaries.iter().any(|b| {
        reference
            .starts
            .iter()
            .any(|st| *b > *st && *b < *st + s + 4)
    });
    let msgs = reference
        .outcomes
        .iter()
        .filter(|o| {
            matches!(
                o,
                Outcome::Item(_) | Outcome::Slice(_) | Outcome::Filtered(_)
            )
        })
        .count();
    if msgs >= 2 && (splits_header || trace.stalls > 0) {
        pass.nontrivial = true;
    }
    pass.classes.push(if slices == API_SLICE {
        "api:next_message_slice"
    } else if slices == API_MESSAGE {
        "api:read_message"
    } else {
        "api:alternating-entry-points"
    });
    if splits_header {
        pass.classes.push("schedule-splits-a-header");
    }
    if trace.stalls > 0 {
        pass.classes.push("schedule-has-interrupted");
    }
    if reference.truncated_in_header {
        pass.classes.push("truncated-in-header");
    }
    if reference.truncated_in_body {
        pass.classes.push("truncated-in-body");
    }
    if reference.hostile_at.is_some() {
        pass.classes.push("declared-length<4");
    }
    if msgs >= 2 {
        pass.classes.push(">=2-messages");
    }
    if reference
        .outcomes
        .iter()
        .any(|o| matches!(o, Outcome::Err("hickup")))
    {
        pass.classes.push("piece-rejected");
    }
    pass.subcases += 1;
    Ok(())
}

pub fn check(c: &Case) -> CheckResult {
    crate::props::readers::with_alternating_filter(c.filter2, || check_inner(c))
}
fn check_inner(c: &Case) -> CheckResult {
    let mut pass = Pass::new(false);
    compare(c, &c.schedule, API_MESSAGE, &mut pass)?;
    compare(c, &c.schedule, API_SLICE, &mut pass)?;
    // both entry points alternately on the same reader (pattern derived from the case)
    let mix = crate::util::splitmix64(
        c.stream.len() as u64 ^ ((c.filter as u64) << 32) ^ c.schedule.steps.len() as u64,
    ) | 2;
    compare(c, &c.schedule, mix & !1, &mut pass)?;
    if c.systematic && c.stream.len() <= 400 {
        for chunk in 1..=64u16 {
            for stall in [false, true] {
                compare(c, &Schedule::constant(chunk, stall), API_MESSAGE, &mut pass)?;
            }
        }
        pass.classes.push("systematic-schedules");
    }
    pass.classes.sort();
    pass.classes.dedup();
    Ok(pass)
}

pub fn strategy() -> impl Strategy<Value = Case> {
    (
        any::<bool>(),
        schedule(),
        0u8..6,
        (prop_oneof![3 => Just(0u8), 1 => 1u8..9], prop_oneof![6 => Just(None), 1 => (0u8..9).prop_map(Some)]),
        prop::bool::weighted(0.1),
    )
        .prop_flat_map(|(storage, schedule, reader_kind, (filter, filter2), systematic)| {
            stream(storage).prop_map(move |stream| Case {
                stream,
                storage,
                schedule: schedule.clone(),
                reader_kind,
                filter,
                filter2,
                systematic,
            })
        })
}

pub fn run(run: &Run) {
    run.rule(
        "cases = byte stream (0..8 well-formed messages, optionally truncated anywhere; hostile bytes; hostile length fields 0..3 / < header / 65535 \
         between good messages) x read schedule owned by the harness (list of Read(k>=1) / ErrorKind::Interrupted steps, then constant chunk with \
         optional interruption before every read) x reader construction (new / with_capacity) x filter; 10% of short streams additionally run the \
         systematic schedules chunk=1..64 x {plain, interrupted before every read}; outcome sequence of read_message and of next_message_slice must \
         equal cutting the stream at the declared lengths and parsing each piece; for a declared length < 4 only no-panic / termination / the \
         outcomes before it are asserted; non-trivial = >= 2 messages and a schedule that splits a header/length field or contains an Interrupted; \
         sub_evaluations counts (stream, schedule, api) runs",
    );
    run.assume("driver protocol: call until Ok(None), at most len/4+3 calls, applied identically to implementation and reference; message_max_len >= 65551 as the reader documents");
    run.regressions(&replay);
    run.random(
        "schedules",
        run.cases(60_000, 1_000_000),
        0.2,
        strategy,
        check,
    );
}

pub fn replay(_section: &str, case: &Json) -> Option<CheckResult> {
    case_from::<Case>(case).map(|c| check(&c))
}
