//! C19 — fixed-size NUL-terminated fields consume their size and yield the clean prefix.
use crate::model::*;
use crate::refcodec;
use crate::runner::*;
use crate::util::{guard, hex_short};
use crate::viol;
use dlt_core::parse::{dlt_message, dlt_zero_terminated_string, DltParseError, ParsedMessage};
use proptest::collection::vec;
use proptest::prelude::*;
use serde::{Deserialize, Serialize};
use serde_json::{json, Value as Json};

#[derive(Debug, Clone, Hash, PartialEq, Eq, Serialize, Deserialize)]
pub enum Case {
    Field {
        #[serde(with = "crate::util::hexser")]
        buf: Vec<u8>,
        size: usize,
    },
    /// the four id fields of a message (storage ECU, header ECU, APID, CTID) as raw bytes
    Ids {
        #[serde(with = "crate::util::hexser")]
        ids: Vec<u8>,
        big_endian: bool,
    },
}

const ALPHA: [u8; 8] = [0x00, b'a', 0xC3, 0xA9, 0xE2, 0x82, 0xAC, 0xFF];

pub fn check_field(buf: &[u8], size: usize) -> CheckResult {
    let r = guard(|| {
        dlt_zero_terminated_string(buf, size)
            .map(|(rest, s)| (rest.len(), rest.as_ptr() as usize, s.to_string()))
    })
    .map_err(|p| {
        Violation::from_panic(
            &format!(
                "dlt_zero_terminated_string(size={}) on {}",
                size,
                hex_short(buf)
            ),
            &p,
        )
    })?;
    if buf.len() >= size {
        let want = refcodec::text(&buf[..size]);
        match r {
            Ok((rest_len, ptr, s)) => {
                if rest_len != buf.len() - size
                    || (rest_len > 0 && ptr != buf.as_ptr() as usize + size)
                {
                    return Err(viol!(
                        "field:consumed",
                        "size {} on a {}-byte buffer left {} bytes instead of {} ({})",
                        size,
                        buf.len(),
                        rest_len,
                        buf.len() - size,
                        hex_short(buf)
                    ));
                }
                if s != want {
                    return Err(viol!(
                        "field:value",
                        "size {}: got {:?}, expected {:?} ({})",
                        size,
                        s,
                        want,
                        hex_short(buf)
                    ));
                }
            }
            Err(e) => {
                return Err(viol!(
                    "field:error",
                    "size {} on a {}-byte buffer failed: {:?} ({})",
                    size,
                    buf.len(),
                    e,
                    hex_short(buf)
                ))
            }
        }
        let field = &buf[..size];
        let has_nul = field.contains(&0);
        let cut_multibyte = want.len() < field.iter().position(|&c| c == 0).unwrap_or(size);
        Ok(Pass::new(has_nul || cut_multibyte)
            .class("enough-bytes")
            .class_if(has_nul, "has-nul")
            .class_if(cut_multibyte, "utf8-cut")
            .class_if(size == 0, "size-0"))
    } else {
        match r {
            Err(DltParseError::IncompleteParse { needed }) => {
                if let Some(k) = needed {
                    if k.get() > size - buf.len() {
                        return Err(viol!(
                            "field:hint-too-large",
                            "size {} with {} bytes available: hint {} > shortfall {}",
                            size,
                            buf.len(),
                            k,
                            size - buf.len()
                        ));
                    }
                }
                Ok(Pass::new(false).class("too-short"))
            }
            other => Err(viol!(
                "field:not-incomplete",
                "size {} with only {} bytes available returned {:?} ({})",
                size,
                buf.len(),
                other,
                hex_short(buf)
            )),
        }
    }
}

fn check_ids(ids: &[u8], big_endian: bool) -> CheckResult {
    if ids.len() != 16 {
        return Ok(Pass::new(false));
    }
    let mut b = vec![];
    b.extend_from_slice(b"DLT\x01\x01\x02\x03\x04\x05\x06\x07\x08");
    b.extend_from_slice(&ids[0..4]);
    let htyp = 0x20 | UEH | WEID | if big_endian { MSBF } else { 0 };
    b.extend_from_slice(&[htyp, 7, 0, 4 + 4 + 10 + 4]);
    b.extend_from_slice(&ids[4..8]);
    b.extend_from_slice(&[0x40, 0]);
    b.extend_from_slice(&ids[8..12]);
    b.extend_from_slice(&ids[12..16]);
    b.extend_from_slice(&[1, 2, 3, 4]);
    let r = guard(|| dlt_message(&b, None, true).map(|(rest, pm)| (rest.len(), pm)))
        .map_err(|p| Violation::from_panic(&format!("dlt_message on {}", hex_short(&b)), &p))?;
    match r {
        Ok((0, ParsedMessage::Item(m))) => {
            let got = [
                m.storage_header
                    .as_ref()
                    .map(|s| s.ecu_id.clone())
                    .unwrap_or_default(),
                m.header.ecu_id.clone().unwrap_or_default(),
                m.extended_header
                    .as_ref()
                    .map(|e| e.application_id.clone())
                    .unwrap_or_default(),
                m.extended_header
                    .as_ref()
                    .map(|e| e.context_id.clone())
                    .unwrap_or_default(),
            ];
            if m.header.ecu_id.is_none() || m.extended_header.is_none() || m.storage_header.is_none() {
                return Err(viol!("ids:field-absent", "message with id bytes {} (storage header, WEID and UEH set): an id field that is on the wire is reported as absent: header ECU id {:?}, extended header present {}, storage header present {}", hex_short(ids), m.header.ecu_id, m.extended_header.is_some(), m.storage_header.is_some()));
            }
            let names = [
                "storage ECU id",
                "header ECU id",
                "application id",
                "context id",
            ];
            let mut nt = false;
            for i in 0..4 {
                let field = &ids[i * 4..i * 4 + 4];
                let want = refcodec::text(field);
                if got[i] != want {
                    return Err(viol!(
                        format!("ids:{}", names[i]),
                        "{} bytes {} parsed as {:?}, expected {:?}",
                        names[i],
                        hex_short(field),
                        got[i],
                        want
                    ));
                }
                nt |= field.contains(&0) || want.len() < 4;
            }
            // the ids are the same under a filter that keeps the message (its id sets contain the ids just read) ...
            {
                let cfg = dlt_core::filtering::DltFilterConfig {
                    min_log_level: None,
                    app_ids: Some(vec![got[2].clone(), "zz".to_string()]),
                    ecu_ids: Some(vec![got[1].clone(), String::new(), "ECU1".to_string()]),
                    context_ids: Some(vec![got[3].clone()]),
                    app_id_count: 2,
                    context_id_count: 1,
                };
                let pf = dlt_core::filtering::ProcessedDltFilterConfig::from(cfg);
                let r =
                    guard(|| dlt_message(&b, Some(&pf), true).map(|(rest, pm)| (rest.len(), pm)))
                        .map_err(|p| {
                        Violation::from_panic(
                            &format!("dlt_message with a filter on {}", hex_short(&b)),
                            &p,
                        )
                    })?;
                match r {
                    Ok((0, ParsedMessage::Item(mf))) => {
                        let gotf = [
                            mf.storage_header
                                .as_ref()
                                .map(|s| s.ecu_id.clone())
                                .unwrap_or_default(),
                            mf.header.ecu_id.clone().unwrap_or_default(),
                            mf.extended_header
                                .as_ref()
                                .map(|e| e.application_id.clone())
                                .unwrap_or_default(),
                            mf.extended_header
                                .as_ref()
                                .map(|e| e.context_id.clone())
                                .unwrap_or_default(),
                        ];
                        for i in 0..4 {
                            if gotf[i] != got[i] {
                                return Err(viol!(format!("ids:{}:under-filter", names[i]), "{} bytes {} parsed as {:?} under a filter that keeps the message, {:?} without filter", names[i], hex_short(&ids[i * 4..i * 4 + 4]), gotf[i], got[i]));
                            }
                        }
                    }
                    other => {
                        return Err(viol!(
                            "ids:under-filter",
                            "a filter whose sets contain the message's ids did not keep it: {}",
                            short_dbg(&other)
                        ))
                    }
                }
            }
            // ... and through the statistics scan, which decodes the same headers
            {
                struct Rec(Vec<[String; 4]>);
                impl dlt_core::statistics::StatisticCollector for Rec {
                    fn collect_statistic(
                        &mut self,
                        s: dlt_core::statistics::Statistic,
                    ) -> Result<(), dlt_core::parse::DltParseError> {
                        self.0.push([
                            s.storage_header
                                .as_ref()
                                .map(|h| h.ecu_id.clone())
                                .unwrap_or_default(),
                            s.standard_header.ecu_id.clone().unwrap_or_default(),
                            s.extended_header
                                .as_ref()
                                .map(|e| e.application_id.clone())
                                .unwrap_or_default(),
                            s.extended_header
                                .as_ref()
                                .map(|e| e.context_id.clone())
                                .unwrap_or_default(),
                        ]);
                        Ok(())
                    }
                }
                let seen = guard(|| {
                    let mut reader =
                        dlt_core::read::DltMessageReader::with_capacity(65551, 65551, &b[..], true);
                    let mut rec = Rec(vec![]);
                    dlt_core::statistics::collect_statistics(&mut reader, &mut rec).map(|_| rec.0)
                })
                .map_err(|p| Violation::from_panic("collect_statistics on the ids message", &p))?;
                match seen {
                    Ok(v) if v.len() == 1 => {
                        for i in 0..4 {
                            if v[0][i] != got[i] {
                                return Err(viol!(format!("ids:{}:statistics", names[i]), "{} bytes {} seen as {:?} by the statistics scan, {:?} by the parser", names[i], hex_short(&ids[i * 4..i * 4 + 4]), v[0][i], got[i]));
                            }
                        }
                    }
                    other => {
                        return Err(viol!(
                            "ids:statistics",
                            "the statistics scan of one message saw {}",
                            short_dbg(&other)
                        ))
                    }
                }
            }
            // the same message followed by a few stray bytes and a second record (other ids): behind junk, too, the FIRST
            // record is the one that is returned
            {
                let mut second = b.clone();
                second[12..16].copy_from_slice(b"ZZZ9");
                second[20..24].copy_from_slice(b"YYY8");
                for junk in [&b""[..], &b"q"[..]] {
                    let mut buf = junk.to_vec();
                    buf.extend_from_slice(&b);
                    buf.extend_from_slice(b"zz\0");
                    buf.extend_from_slice(&second);
                    let r = guard(|| dlt_message(&buf, None, true).map(|(rest, pm)| (rest.len(), pm))).map_err(|p| Violation::from_panic(&format!("dlt_message on {}", hex_short(&buf)), &p))?;
                    match r {
                        Ok((rest, ParsedMessage::Item(m1))) if rest == 3 + second.len() && m1.header.ecu_id.clone().unwrap_or_default() == got[1] && m1.storage_header.as_ref().map(|s| s.ecu_id.clone()).unwrap_or_default() == got[0] => {}
                        other => return Err(viol!("ids:first-of-two-records", "record with id bytes {} + 3 stray bytes + a second record, {} junk bytes in front: expected the first record and {} bytes left, got {}", hex_short(ids), junk.len(), 3 + second.len(), short_dbg(&other))),
                    }
                }
            }
            // a message without extended header (ids: storage ECU id and header ECU id only), alone in the buffer
            {
                let mut nb = vec![];
                nb.extend_from_slice(b"DLT\x01\x01\x02\x03\x04\x05\x06\x07\x08");
                nb.extend_from_slice(&ids[0..4]);
                nb.extend_from_slice(&[0x20 | WEID | if big_endian { MSBF } else { 0 }, 7, 0, 4 + 4 + 6]);
                nb.extend_from_slice(&ids[4..8]);
                nb.extend_from_slice(&[1, 2, 3, 4, 5, 6]);
                for tail in [0usize, 1, 9, 10] {
                    let mut buf = nb.clone();
                    buf.extend(std::iter::repeat(b'.').take(tail));
                    let r = guard(|| dlt_message(&buf, None, true).map(|(rest, pm)| (rest.len(), pm))).map_err(|p| Violation::from_panic(&format!("dlt_message on {}", hex_short(&buf)), &p))?;
                    match r {
                        Ok((rest, ParsedMessage::Item(m0))) if rest == tail && m0.header.ecu_id.clone().unwrap_or_default() == got[1] && m0.storage_header.as_ref().map(|s| s.ecu_id.clone()).unwrap_or_default() == got[0] => {}
                        other => return Err(viol!("ids:no-extended-header", "message without extended header, id bytes {}, {} bytes behind it: expected the message with the same ECU ids, got {}", hex_short(&ids[..8]), tail, short_dbg(&other))),
                    }
                }
            }
            // the same ids in a control message with a one-byte payload: every cut from the end of the standard header on
            // is incomplete, with a hint no larger than what is missing
            {
                let mut cb = b[..16 + 4 + 4].to_vec();
                cb[16] = 0x20 | UEH | WEID | if big_endian { MSBF } else { 0 };
                cb.extend_from_slice(&[0x26, 0]);
                cb.extend_from_slice(&ids[8..16]);
                cb.push(0x01);
                let l = (cb.len() - 16) as u16;
                cb[18..20].copy_from_slice(&l.to_be_bytes());
                for cut in 24..cb.len() {
                    let r = guard(|| dlt_message(&cb[..cut], None, true).map(|(rest, pm)| (rest.len(), pm))).map_err(|p| Violation::from_panic(&format!("dlt_message on {}", hex_short(&cb[..cut])), &p))?;
                    match r {
                        Err(dlt_core::parse::DltParseError::IncompleteParse { needed }) => {
                            if let Some(n) = needed {
                                if n.get() > cb.len() - cut {
                                    return Err(viol!("ids:control:hint", "control message with id bytes {} cut at {} of {}: hint {} exceeds the {} missing bytes", hex_short(ids), cut, cb.len(), n, cb.len() - cut));
                                }
                            }
                        }
                        other => return Err(viol!("ids:control:not-incomplete", "control message with id bytes {} cut at {} of {}: expected incomplete, got {}", hex_short(ids), cut, cb.len(), short_dbg(&other))),
                    }
                }
            }
            // "with fewer than n bytes available it reports incomplete": the buffer ends inside each of the four id
            // fields in turn (0..3 of its bytes present), without and with junk in front of the storage header; any
            // hint must not exceed the bytes that are missing
            let field_starts = [12usize, 20, 26, 30];
            // (one junk prefix repeats the record's own header ECU id bytes at the offset a storage ECU id has in a record)
            let mut mirror = vec![b'j'; 12];
            mirror.extend_from_slice(&ids[4..8]);
            mirror.extend_from_slice(b"jj");
            if mirror.windows(4).any(|w| w == b"DLT\x01") || mirror.ends_with(b"D") || mirror.ends_with(b"DL") || mirror.ends_with(b"DLT") {
                mirror = vec![b'j'];
            }
            for junk in [&b""[..], &b"x"[..], &b"junkDLTjunk, more junk"[..], &b"tornDLT"[..], &b"DL"[..], &mirror[..]] {
                let mut buf = junk.to_vec();
                buf.extend_from_slice(&b);
                if !junk.is_empty() {
                    // the complete message behind junk: the same four ids (whatever bytes the id fields hold)
                    let r = guard(|| dlt_message(&buf, None, true).map(|(rest, pm)| (rest.len(), pm))).map_err(|p| Violation::from_panic(&format!("dlt_message on {}", hex_short(&buf)), &p))?;
                    match r {
                        Ok((0, ParsedMessage::Item(mj))) => {
                            let gotj = [
                                mj.storage_header.as_ref().map(|s| s.ecu_id.clone()).unwrap_or_default(),
                                mj.header.ecu_id.clone().unwrap_or_default(),
                                mj.extended_header.as_ref().map(|e| e.application_id.clone()).unwrap_or_default(),
                                mj.extended_header.as_ref().map(|e| e.context_id.clone()).unwrap_or_default(),
                            ];
                            for i in 0..4 {
                                if gotj[i] != got[i] {
                                    return Err(viol!(format!("ids:{}:behind-junk", names[i]), "{} bytes {} parsed as {:?} behind {} junk bytes, {:?} without junk", names[i], hex_short(&ids[i * 4..i * 4 + 4]), gotj[i], junk.len(), got[i]));
                                }
                            }
                        }
                        other => return Err(viol!("ids:behind-junk", "the message with id bytes {} behind {} junk bytes did not parse completely: {}", hex_short(ids), junk.len(), short_dbg(&other))),
                    }
                }
                for (i, fs) in field_starts.iter().enumerate() {
                    for have in 0..4usize {
                        let cut = junk.len() + fs + have;
                        // without a filter, and under filters that would reject the complete message by its ECU id / by
                        // its application id (the ids are not complete yet: nothing can be decided)
                        for fsel in 0..3u8 {
                            let s = |v: &[&str]| {
                                Some(v.iter().map(|x| x.to_string()).collect::<Vec<_>>())
                            };
                            let pf = match fsel {
                                0 => None,
                                1 => Some(dlt_core::filtering::ProcessedDltFilterConfig::from(
                                    dlt_core::filtering::DltFilterConfig {
                                        min_log_level: None,
                                        app_ids: None,
                                        ecu_ids: s(&["~no"]),
                                        context_ids: None,
                                        app_id_count: 0,
                                        context_id_count: 0,
                                    },
                                )),
                                _ => Some(dlt_core::filtering::ProcessedDltFilterConfig::from(
                                    dlt_core::filtering::DltFilterConfig {
                                        min_log_level: Some(1),
                                        app_ids: s(&["~no"]),
                                        ecu_ids: None,
                                        context_ids: s(&[]),
                                        app_id_count: 2,
                                        context_id_count: 1,
                                    },
                                )),
                            };
                            let r = guard(|| {
                                dlt_message(&buf[..cut], pf.as_ref(), true)
                                    .map(|(rest, pm)| (rest.len(), pm))
                            })
                            .map_err(|p| {
                                Violation::from_panic(
                                    &format!("dlt_message on {}", hex_short(&buf[..cut])),
                                    &p,
                                )
                            })?;
                            match r {
                            Err(dlt_core::parse::DltParseError::IncompleteParse { needed }) => {
                                if let Some(n) = needed {
                                    if n.get() > buf.len() - cut {
                                        return Err(viol!(format!("ids:{}:hint", names[i]), "buffer ends {} bytes into the {}: hint {} exceeds the {} missing bytes", have, names[i], n, buf.len() - cut));
                                    }
                                }
                            }
                            other => {
                                return Err(viol!(
                                    format!("ids:{}:not-incomplete", names[i]),
                                    "buffer ends {} bytes into the {} ({} junk bytes in front, filter {}): expected incomplete, got {}; buffer={}",
                                    have, names[i], junk.len(), ["none", "rejecting the ECU id", "rejecting the application id"][fsel as usize], short_dbg(&other), hex_short(&buf[..cut])
                                ))
                            }
                        }
                        }
                    }
                }
            }
            Ok(Pass::new(nt).class("ids"))
        }
        other => Err(viol!(
            "ids:parse",
            "message with id bytes {} did not parse: {}",
            hex_short(ids),
            short_dbg(&other)
        )),
    }
}

pub fn check(c: &Case) -> CheckResult {
    match c {
        Case::Field { buf, size } => check_field(buf, *size),
        Case::Ids { ids, big_endian } => check_ids(ids, *big_endian),
    }
}

pub fn strategy() -> impl Strategy<Value = Case> {
    let alpha = || prop::sample::select(ALPHA.to_vec());
    prop_oneof![
        4 => (vec(alpha(), 0..300), any::<u16>(), prop_oneof![3 => Just(0usize), 1 => 1usize..100]).prop_map(|(buf, f, over)| {
            let size = if over > 0 { buf.len() + over } else { (f as usize * (buf.len() + 1)) >> 16 };
            Case::Field { buf, size }
        }),
        2 => (vec(any::<u8>(), 0..300), any::<u16>(), prop_oneof![3 => Just(0usize), 1 => 1usize..100]).prop_map(|(buf, f, over)| {
            let size = if over > 0 { buf.len() + over } else { (f as usize * (buf.len() + 1)) >> 16 };
            Case::Field { buf, size }
        }),
        2 => (prop::sample::select(vec![255usize, 256, 4096, 65535]), -3i64..=3, any::<u64>(), 0u8..6, any::<u16>(), alpha()).prop_map(|(size, d, s, a, p, x)| {
            let len = (size as i64 + d).max(0) as usize;
            let mut buf = crate::util::expand_bytes(s, len, a);
            if !buf.is_empty() {
                let k = (p as usize * buf.len()) >> 16;
                buf[k] = x;
            }
            Case::Field { buf, size }
        }),
        // valid text over the whole repertoire (special scalars such as U+FFFD, U+FEFF, astral characters) cut at an
        // arbitrary byte, optionally with a NUL somewhere and arbitrary bytes behind the cut
        2 => (crate::gen::message::short_text(40), crate::gen::message::short_text(40), any::<u16>(), prop::option::weighted(0.3, any::<u16>()), vec(any::<u8>(), 0..4)).prop_map(|(t1, t2, cut, nul, tail)| {
            let mut buf = t1.into_bytes();
            buf.extend_from_slice(t2.as_bytes());
            let size = (cut as usize * (buf.len() + 1)) >> 16;
            if let Some(k) = nul {
                if !buf.is_empty() {
                    let at = (k as usize * buf.len()) >> 16;
                    buf[at] = 0;
                }
            }
            buf.extend(tail);
            Case::Field { buf, size }
        }),
        1 => (vec(alpha(), 0..12), prop::sample::select(vec![usize::MAX, usize::MAX - 1, 1 << 40, 70_000])).prop_map(|(buf, size)| Case::Field { buf, size }),
        3 => (vec(alpha(), 16), any::<bool>()).prop_map(|(ids, big_endian)| Case::Ids { ids, big_endian }),
        1 => (vec(any::<u8>(), 16), any::<bool>()).prop_map(|(ids, big_endian)| Case::Ids { ids, big_endian }),
        // sixteen bytes of valid text cut into four fields wherever the 4-byte boundaries fall: characters that straddle
        // two neighbouring fields, fields that are clean only together with their neighbour
        2 => (vec(prop::sample::select(vec!["a", "B", "é", "ß", "€", "日", "𝄞", "7", "\u{7f}", "\u{fffd}"]), 16), 0usize..4, any::<bool>(), prop::option::weighted(0.3, 0usize..16)).prop_map(|(pieces, pre, big_endian, nul)| {
            let mut text = "xyz"[..pre].to_string();
            text.push_str(&pieces.concat());
            let mut ids = text.into_bytes();
            ids.truncate(16);
            if let Some(k) = nul {
                ids[k] = 0;
            }
            Case::Ids { ids, big_endian }
        }),
    ]
}

/// one block of the small-alphabet enumeration (a pure function of the block number)
fn alphabet_block(block: u64) -> BlockReport {
    let mut rep = BlockReport::default();
    let mut bufs: Vec<Vec<u8>> = vec![];
    if block == 64 {
        bufs.push(vec![]);
        for a in ALPHA {
            bufs.push(vec![a]);
        }
    } else {
        let head = vec![ALPHA[(block / 8) as usize], ALPHA[(block % 8) as usize]];
        bufs.push(head.clone());
        let mut frontier = vec![head];
        for _ in 0..4 {
            let mut next = vec![];
            for f in &frontier {
                for a in ALPHA {
                    let mut n = f.clone();
                    n.push(a);
                    next.push(n);
                }
            }
            bufs.extend(next.iter().cloned());
            frontier = next;
        }
    }
    for buf in &bufs {
        for size in 0..=7usize {
            rep.evaluations += 1;
            match check_field(buf, size) {
                Ok(p) => rep.nontrivial += p.nontrivial as u64,
                Err(v) => {
                    if rep.violation.is_none() {
                        rep.violation = Some((
                            json!(Case::Field {
                                buf: buf.clone(),
                                size
                            }),
                            v,
                        ));
                    }
                }
            }
        }
    }
    if block == 13 {
        rep.sample = Some(json!({"buf": hex_short(&bufs[bufs.len() / 2]), "sizes": "0..=7"}));
    }
    rep
}

pub fn run(run: &Run) {
    run.rule(
        "exhaustive part: all byte strings of length 0..=6 over the alphabet {00,'a',C3,A9,E2,82,AC,FF} x declared sizes 0..=7 (2.4 M calls, fixed \
         order); random part: lengths 0..300 x sizes 0..400, buffers around sizes 255/256/4096/65535, huge sizes, and messages whose four id fields \
         are arbitrary bytes over the same alphabet; oracle = reference extraction (cut at first NUL inside the size, longest valid UTF-8 prefix, \
         consume exactly the size, incomplete with hint <= shortfall otherwise); non-trivial = field contains a NUL or a multi-byte sequence cut by the \
         size or a NUL; distinct by (buffer, size)",
    );
    run.regressions(&replay);
    // exhaustive: 8^0 + ... + 8^6 strings x 8 sizes; block = first two symbols (64 blocks) for length >= 2, plus one block for shorter
    run.enumerate("small-alphabet-exhaustive", 65, true, alphabet_block);
    run.random(
        "random",
        run.cases(2_000_000, 30_000_000),
        0.3,
        strategy,
        check,
    );
}

pub fn replay(section: &str, case: &Json) -> Option<CheckResult> {
    if section == "small-alphabet-exhaustive" {
        if let Some(b) = case["enum_block"].as_u64() {
            return Some(match alphabet_block(b).violation {
                Some((_, v)) => Err(v),
                None => Ok(Pass::new(true).class("enumeration-block")),
            });
        }
    }
    case_from::<Case>(case).map(|c| check(&c))
}
