//! C10 — statistics count every message once per id and merge like a sum.
use crate::gen::message as g;
use crate::model::*;
use crate::refcodec;
use crate::runner::*;
use crate::util::guard;
use crate::viol;
use dlt_core::dlt::{LogLevel, MessageType};
use dlt_core::parse::DltParseError;
use dlt_core::read::DltMessageReader;
use dlt_core::statistics::common::{LevelDistribution, StatisticInfo, StatisticInfoCollector};
use dlt_core::statistics::{collect_statistics, Statistic, StatisticCollector};
use proptest::collection::vec;
use proptest::prelude::*;
use serde::{Deserialize, Serialize};
use serde_json::Value as Json;
use std::collections::BTreeMap;

#[derive(Debug, Clone, Hash, PartialEq, Eq, Serialize, Deserialize)]
pub struct Case {
    pub storage: bool,
    pub msgs: Vec<RMsg>,
    /// split points (fractions of the message count)
    pub splits: Vec<u16>,
    /// permutation keys for the parts and the merge history: (receiver, donor) index fractions
    pub order: Vec<u16>,
    pub merges: Vec<(u16, u16)>,
    /// a segment of the stream (fractions of the message count) that occurs a second time at the end
    #[serde(default)]
    pub repeat: Option<(u16, u16)>,
}

type Counters = [usize; 8]; // non_log, fatal, error, warning, info, debug, verbose, invalid
#[derive(Debug, Default, Clone, PartialEq)]
struct Tally {
    app: BTreeMap<String, Counters>,
    ctx: BTreeMap<String, Counters>,
    ecu: BTreeMap<String, Counters>,
    non_verbose: bool,
}
fn bucket_of(m: &RMsg) -> usize {
    match &m.ext {
        Some(e) if (e.msin >> 1) & 7 == 0 => match e.msin >> 4 {
            l @ 1..=6 => l as usize,
            _ => 7,
        },
        _ => 0,
    }
}
fn tally(msgs: &[RMsg]) -> Tally {
    let mut t = Tally::default();
    for m in msgs {
        let b = bucket_of(m);
        t.ecu
            .entry(m.ecu.clone().unwrap_or_else(|| "NONE".to_string()))
            .or_insert([0; 8])[b] += 1;
        if let Some(e) = &m.ext {
            t.app.entry(e.apid.clone()).or_insert([0; 8])[b] += 1;
            t.ctx.entry(e.ctid.clone()).or_insert([0; 8])[b] += 1;
        }
        let verbose = matches!(&m.ext, Some(e) if e.msin & 1 != 0);
        t.non_verbose |= !verbose;
    }
    t
}
fn counters(l: &LevelDistribution) -> Counters {
    [
        l.non_log,
        l.log_fatal,
        l.log_error,
        l.log_warning,
        l.log_info,
        l.log_debug,
        l.log_verbose,
        l.log_invalid,
    ]
}
fn to_tally(s: &StatisticInfo) -> Result<Tally, String> {
    let conv = |v: &Vec<(String, LevelDistribution)>,
                what: &str|
     -> Result<BTreeMap<String, Counters>, String> {
        let mut m = BTreeMap::new();
        for (k, l) in v {
            if m.insert(k.clone(), counters(l)).is_some() {
                return Err(format!("id {:?} occurs twice in {}", k, what));
            }
        }
        Ok(m)
    };
    Ok(Tally {
        app: conv(&s.app_ids, "app_ids")?,
        ctx: conv(&s.context_ids, "context_ids")?,
        ecu: conv(&s.ecu_ids, "ecu_ids")?,
        non_verbose: s.contained_non_verbose,
    })
}

/// what one call of the collector saw, in the harness's terms
#[derive(Debug, PartialEq)]
struct Seen {
    level: Option<LogLevel>,
    storage: Option<dlt_core::dlt::StorageHeader>,
    header: dlt_core::dlt::StandardHeader,
    ext: Option<dlt_core::dlt::ExtendedHeader>,
    payload: Vec<u8>,
    verbose: bool,
}
#[derive(Default)]
struct Recorder {
    seen: Vec<Seen>,
}
impl StatisticCollector for Recorder {
    fn collect_statistic(&mut self, s: Statistic) -> Result<(), DltParseError> {
        self.seen.push(Seen {
            level: s.log_level,
            storage: s.storage_header,
            header: s.standard_header,
            ext: s.extended_header,
            payload: s.payload.to_vec(),
            verbose: s.is_verbose,
        });
        Ok(())
    }
}

fn bytes_of(msgs: &[RMsg]) -> Vec<u8> {
    let mut b = vec![];
    for m in msgs {
        b.extend(to_crate(m).as_bytes());
    }
    b
}
fn stats_of(msgs: &[RMsg], storage: bool) -> Result<StatisticInfo, Violation> {
    let bytes = bytes_of(msgs);
    // a reader whose buffers are as small as the stream allows (they wrap inside messages all the time)
    let (cap, max) = super::readers::capacities(5, &bytes, storage).unwrap_or((65551, 65551));
    guard(|| {
        let mut reader = DltMessageReader::with_capacity(cap, max, &bytes[..], storage);
        let mut c = StatisticInfoCollector::default();
        collect_statistics(&mut reader, &mut c).map(|_| c.collect())
    })
    .map_err(|p| Violation::from_panic("collect_statistics", &p))?
    .map_err(|e| {
        viol!(
            "stats:error",
            "collect_statistics failed on a well-formed stream: {:?}",
            e
        )
    })
}

pub fn check(c: &Case) -> CheckResult {
    let mut msgs: Vec<RMsg> = c
        .msgs
        .iter()
        .filter(|m| m.storage.is_some() == c.storage)
        .cloned()
        .collect();
    if let Some((a, b)) = c.repeat {
        let (i, j) = (
            (a as usize * (msgs.len() + 1)) >> 16,
            (b as usize * (msgs.len() + 1)) >> 16,
        );
        let seg: Vec<RMsg> = msgs[i.min(j)..i.max(j)].to_vec();
        msgs.extend(seg);
    }
    let bytes = bytes_of(&msgs);
    // (a) the collector sees every message exactly once, in order, with its decoded headers
    let rec = guard(|| {
        let mut reader = DltMessageReader::with_capacity(65551, 65551, &bytes[..], c.storage);
        let mut r = Recorder::default();
        collect_statistics(&mut reader, &mut r).map(|_| r)
    })
    .map_err(|p| Violation::from_panic("collect_statistics", &p))?
    .map_err(|e| {
        viol!(
            "stats:error",
            "collect_statistics failed on a well-formed stream: {:?}",
            e
        )
    })?;
    if rec.seen.len() != msgs.len() {
        return Err(viol!(
            "stats:visit-count",
            "the collector was called {} times for {} messages",
            rec.seen.len(),
            msgs.len()
        ));
    }
    for (i, (s, m)) in rec.seen.iter().zip(msgs.iter()).enumerate() {
        let cm = to_crate(m);
        let want = Seen {
            level: match cm.extended_header.as_ref().map(|e| &e.message_type) {
                Some(MessageType::Log(l)) => Some(*l),
                _ => None,
            },
            storage: cm.storage_header.clone(),
            header: cm.header.clone(),
            ext: cm.extended_header.clone(),
            payload: refcodec::encode_payload(m, m.big_endian()).0,
            verbose: cm.extended_header.as_ref().map_or(false, |e| e.verbose),
        };
        if *s != want {
            let field = if s.level != want.level {
                "log-level"
            } else if s.header != want.header {
                "standard-header"
            } else if s.ext != want.ext {
                "extended-header"
            } else if s.storage != want.storage {
                "storage-header"
            } else if s.verbose != want.verbose {
                "is-verbose"
            } else {
                "payload"
            };
            return Err(viol!(
                format!("stats:visit:{}", field),
                "statistic #{} differs in {}: got {} expected {}",
                i,
                field,
                short_dbg(s),
                short_dbg(&want)
            ));
        }
    }
    // (b) the standard collector equals an independent tally
    let whole = stats_of(&msgs, c.storage)?;
    let got = to_tally(&whole).map_err(|e| viol!("stats:duplicate-id", "{}", e))?;
    let want = tally(&msgs);
    if got != want {
        let field = if got.ecu != want.ecu {
            "ecu_ids"
        } else if got.app != want.app {
            "app_ids"
        } else if got.ctx != want.ctx {
            "context_ids"
        } else {
            "contained_non_verbose"
        };
        return Err(viol!(
            format!("stats:tally:{}", field),
            "statistics differ from the independent tally in {}: got {:?} expected {:?}",
            field,
            got,
            want
        ));
    }
    let total: usize = got.ecu.values().map(|c| c.iter().sum::<usize>()).sum();
    if total != msgs.len() {
        return Err(viol!(
            "stats:conservation",
            "ECU totals add up to {} for {} messages",
            total,
            msgs.len()
        ));
    }
    // (c) merging the parts in the generated history gives the statistics of the whole
    let mut cuts: Vec<usize> = c
        .splits
        .iter()
        .map(|f| (*f as usize * (msgs.len() + 1)) >> 16)
        .collect();
    cuts.push(0);
    cuts.push(msgs.len());
    cuts.sort();
    // (equal cut points stay: they give empty parts, whose statistics must merge like zero)
    let mut parts: Vec<StatisticInfo> = vec![];
    for w in cuts.windows(2) {
        parts.push(stats_of(&msgs[w[0]..w[1]], c.storage)?);
    }
    let nparts = parts.len();
    // permute: repeatedly move a selected element to the end
    for k in &c.order {
        if !parts.is_empty() {
            let i = (*k as usize * parts.len()) >> 16;
            let p = parts.remove(i);
            parts.push(p);
        }
    }
    let mut history = vec![];
    let mut mi = 0;
    while parts.len() > 1 {
        let (a, b) = c.merges.get(mi).cloned().unwrap_or((0, 0));
        mi += 1;
        let recv = (a as usize * parts.len()) >> 16;
        let mut donor = (b as usize * (parts.len() - 1)) >> 16;
        if donor >= recv {
            donor += 1;
        }
        history.push((recv, donor));
        let d = parts.remove(donor);
        let recv = if donor < recv { recv - 1 } else { recv };
        guard(|| parts[recv].merge(d))
            .map_err(|p| Violation::from_panic("StatisticInfo::merge", &p))?;
    }
    let merged = match parts.pop() {
        Some(p) => p,
        None => StatisticInfo::new(),
    };
    // merging into an empty StatisticInfo as well
    let mut from_empty = StatisticInfo::new();
    let merged_t =
        to_tally(&merged).map_err(|e| viol!("stats:merge:duplicate-id", "{} after merging", e))?;
    guard(|| from_empty.merge(merged))
        .map_err(|p| Violation::from_panic("StatisticInfo::merge into empty", &p))?;
    let from_empty_t = to_tally(&from_empty).map_err(|e| {
        viol!(
            "stats:merge:duplicate-id",
            "{} after merging into an empty StatisticInfo",
            e
        )
    })?;
    if merged_t != want || from_empty_t != want {
        return Err(viol!(
            "stats:merge",
            "merging {} parts (cuts {:?}, history {:?}) gives {:?}, the statistics of the whole stream are {:?}",
            nparts, cuts, history, if merged_t != want { &merged_t } else { &from_empty_t }, want
        ));
    }
    let ids: std::collections::BTreeSet<&String> = msgs
        .iter()
        .filter_map(|m| m.ext.as_ref().map(|e| &e.apid))
        .collect();
    Ok(Pass::new(msgs.len() >= 3 && ids.len() >= 2 && nparts >= 2)
        .class_if(nparts >= 2, "parts>=2")
        .class_if(nparts >= 4, "parts>=4")
        .class_if(msgs.iter().any(|m| m.ecu.is_none()), "ecu-NONE")
        .class_if(msgs.iter().any(|m| m.ext.is_none()), "no-ext-header")
        .class_if(msgs.iter().any(|m| bucket_of(m) == 7), "invalid-level")
        .class_if(want.non_verbose, "contained-non-verbose")
        .class_if(msgs.is_empty(), "empty-stream")
        .class(if c.storage { "storage" } else { "no-storage" }))
}

/// more log messages: unknown MSTP 4..5 -> log
pub fn more_logs(mut m: RMsg) -> RMsg {
    if let Some(e) = &mut m.ext {
        if e.msin & 0x0c == 0x08 {
            e.msin &= 0xf1;
        }
    }
    m
}

pub fn strategy() -> impl Strategy<Value = Case> {
    any::<bool>().prop_flat_map(|storage| {
        let st = if storage {
            g::StorageMode::Always
        } else {
            g::StorageMode::Never
        };
        let m = g::message(g::MsgParams {
            storage: st,
            large: false,
            pool_ids: true,
            ..Default::default()
        })
        .prop_map(more_logs);
        (
            vec(m, 0..40),
            vec(
                prop_oneof![4 => any::<u16>(), 1 => Just(0u16), 1 => Just(u16::MAX)],
                0..5,
            ),
            vec(any::<u16>(), 0..6),
            vec(any::<(u16, u16)>(), 8),
            prop::option::weighted(0.2, any::<(u16, u16)>()),
        )
            .prop_map(move |(msgs, splits, order, merges, repeat)| Case {
                storage,
                msgs,
                splits,
                order,
                merges,
                repeat,
            })
    })
}

pub fn run(run: &Run) {
    run.rule(
        "cases = stream of 0..40 well-formed messages over a small id pool (collisions frequent; all level classes, with/without ECU id and extended \
         header, both storage modes) x split points at message boundaries (1..6 parts) x merge history (permutation of the parts + sequence of \
         (receiver, donor) merges = order and association vary); checked: a recording collector sees exactly one statistic per message, in order, with \
         the generated headers / level / verbose flag / reference-encoded payload; StatisticInfoCollector equals an independent tally from the generated \
         messages; ECU totals = message count; merged parts = statistics of the whole (also when merged into an empty StatisticInfo); non-trivial = >= 3 \
         messages, >= 2 distinct application ids, >= 2 parts; distinct by the whole case",
    );
    run.assume("maps are compared as sorted maps (never by iteration order); an id occurring twice in a result vector is a violation");
    run.regressions(&replay);
    run.random(
        "streams",
        run.cases(120_000, 1_500_000),
        0.3,
        strategy,
        check,
    );
}

pub fn replay(_section: &str, case: &Json) -> Option<CheckResult> {
    case_from::<Case>(case).map(|c| check(&c))
}
