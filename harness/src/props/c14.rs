//! C14 — header-type, message-info and type-info codes decode and re-encode consistently.
//! Bounded-exhaustive enumeration of the three finite code spaces against the bit layout.
use crate::model::*;
use crate::refcodec;
use crate::runner::*;
use crate::util::{guard, hex_short};
use crate::viol;
use byteorder::{BigEndian, LittleEndian};
use dlt_core::dlt::{Endianness, MessageType, TypeInfo};
use dlt_core::parse::{dlt_message, ParsedMessage};
use serde::{Deserialize, Serialize};
use serde_json::{json, Value as Json};
use std::convert::TryFrom;

#[derive(Debug, Clone, Hash, PartialEq, Eq, Serialize, Deserialize)]
pub enum Case {
    Htyp(u8),
    Msin(u8),
    TypeInfo(u32),
}

fn check_htyp(h: u8) -> CheckResult {
    // the byte must decode the same way whatever the ECU field holds, with or without a storage header, and under any
    // filter configuration that keeps the message
    let fillings: [(&[u8; 4], &str, bool); 5] = [
        (b"EC\0\0", "EC", true),
        (b"\0\0\0\0", "", true),
        (b"ECU1", "ECU1", true),
        (b"\xffAB\0", "", false),
        // the ECU field holds the same four bytes as the session id field of these messages
        (b"\x01\x02\x03\x04", "\u{1}\u{2}\u{3}\u{4}", true),
    ];
    for (ecu_bytes, ecu_text, canonical) in fillings {
        for storage in [false, true] {
            for fidx in 0..8u8 {
                check_htyp_in(h, ecu_bytes, ecu_text, canonical, storage, fidx, 0)?;
                if h & UEH != 0 && fidx < 2 {
                    // verbose payloads: one argument written in the announced byte order, and one written in the other
                    // order (a sender with a wrong MSBF bit): whatever the parser makes of the latter, a message it
                    // returns still carries the flags this byte prescribes
                    check_htyp_in(h, ecu_bytes, ecu_text, canonical, storage, fidx, 1)?;
                    check_htyp_in(h, ecu_bytes, ecu_text, false, storage, fidx, 2)?;
                    // ... and one whose string fills its size without the terminating NUL (re-encoding appends one)
                    check_htyp_in(h, ecu_bytes, ecu_text, false, storage, fidx, 3)?;
                }
            }
        }
        if h & WEID == 0 {
            break; // the filling is not on the wire
        }
    }
    Ok(Pass::new(true).class("htyp"))
}

fn check_htyp_in(
    h: u8,
    ecu_bytes: &[u8; 4],
    ecu_text: &str,
    canonical: bool,
    storage: bool,
    fidx: u8,
    payload: u8,
) -> Result<(), Violation> {
    // minimal message with the optional fields HTYP announces
    let mut b = vec![];
    if storage {
        if fidx % 2 == 1 {
            // storage time: the seconds of the message's own time stamp field, no microseconds
            b.extend_from_slice(b"DLT\x01\x0d\x0c\x0b\x0a\0\0\0\0STO\0");
        } else {
            b.extend_from_slice(if fidx % 4 == 2 { b"DLT\x01\x01\x02\x03\x04\x05\x06\x07\x08\0\0\0\0" } else { b"DLT\x01\x01\x02\x03\x04\x05\x06\x07\x08STO\0" });
        }
    }
    let start = b.len();
    b.extend_from_slice(&[h, 0x5a, 0, 0]);
    if h & WEID != 0 {
        b.extend_from_slice(ecu_bytes);
    }
    if h & WSID != 0 {
        b.extend_from_slice(&0x0102_0304u32.to_be_bytes());
    }
    // (in a quarter of the contexts the time stamp field holds the same word as the session id field)
    let tmsp: u32 = if fidx % 4 == 3 { 0x0102_0304 } else { 0x0a0b_0c0d };
    if h & WTMS != 0 {
        b.extend_from_slice(&tmsp.to_be_bytes());
    }
    if h & UEH != 0 {
        b.extend_from_slice(if payload == 0 { &[0x40, 0] } else { &[0x41, 2] });
        b.extend_from_slice(b"APP\0CTX\0");
    }
    if payload == 0 {
        b.extend_from_slice(&[9, 8, 7, 6]);
    } else {
        // UINT 16 bit = 0x1234 and a string "ab": payload 1 in the announced order, payload 2 in the other one
        let big = (h & MSBF != 0) == (payload != 2);
        let w32 = |v: u32| {
            if big {
                v.to_be_bytes()
            } else {
                v.to_le_bytes()
            }
        };
        let w16 = |v: u16| {
            if big {
                v.to_be_bytes()
            } else {
                v.to_le_bytes()
            }
        };
        b.extend_from_slice(&w32(0x42));
        b.extend_from_slice(&w16(0x1234));
        b.extend_from_slice(&w32(0x200));
        b.extend_from_slice(&w16(3));
        b.extend_from_slice(if payload == 3 { b"abc" } else { b"ab\0" });
    }
    let len = (b.len() - start) as u16;
    b[start + 2..start + 4].copy_from_slice(&len.to_be_bytes());
    let filter = crate::oracle::filter_by_index(fidx);
    let ctx = format!(
        "HTYP {:#04x}, ECU field {}, storage header {}, filter #{}",
        h,
        hex_short(ecu_bytes),
        storage,
        fidx
    );
    let r = guard(|| dlt_message(&b, filter.as_ref(), storage).map(|(rest, pm)| (rest.len(), pm)))
        .map_err(|p| Violation::from_panic(&format!("dlt_message on {}", hex_short(&b)), &p))?;
    let m = match r {
        Ok((0, ParsedMessage::Item(m))) => m,
        Ok((0, ParsedMessage::FilteredOut(_))) if filter.is_some() => return Ok(()),
        // arguments in the wrong byte order: refusing is fine
        Ok((_, ParsedMessage::Invalid)) | Err(_) if payload == 2 => return Ok(()),
        other => {
            return Err(viol!(
                "htyp:parse",
                "minimal message ({}) did not parse: {}",
                ctx,
                short_dbg(&other)
            ))
        }
    };
    let hd = &m.header;
    let ok = hd.version == h >> 5
        && hd.has_extended_header == (h & UEH != 0)
        && (hd.endianness == Endianness::Big) == (h & MSBF != 0)
        && hd.ecu_id.is_some() == (h & WEID != 0)
        && hd.session_id.is_some() == (h & WSID != 0)
        && hd.timestamp.is_some() == (h & WTMS != 0)
        && hd.ecu_id.as_deref().map_or(true, |e| e == ecu_text)
        && hd.session_id.map_or(true, |s| s == 0x0102_0304)
        && hd.timestamp.map_or(true, |s| s == tmsp)
        && hd.message_counter == 0x5a
        && m.extended_header.is_some() == (h & UEH != 0);
    if !ok {
        return Err(viol!(
            "htyp:fields",
            "{} ({:#010b}) decoded to {:?}",
            ctx,
            h,
            hd
        ));
    }
    let back = guard(|| hd.header_type_byte())
        .map_err(|p| Violation::from_panic("header_type_byte", &p))?;
    if back != h {
        return Err(viol!(
            "htyp:reencode",
            "{} re-encodes to {:#04x}",
            ctx,
            back
        ));
    }
    // stamping the decoded message with a storage header does not touch its standard header
    let stamped = guard(|| {
        m.clone()
            .add_storage_header(Some(dlt_core::dlt::DltTimeStamp {
                seconds: 1,
                microseconds: 2,
            }))
    })
    .map_err(|p| Violation::from_panic("add_storage_header", &p))?;
    let (hb, sb) = guard(|| (stamped.header.header_type_byte(), stamped.as_bytes()))
        .map_err(|p| Violation::from_panic("header_type_byte after add_storage_header", &p))?;
    if hb != h || sb.get(16) != Some(&h) {
        return Err(viol!(
            "htyp:after-add-storage-header",
            "{}: after add_storage_header the header type is {:#04x} (byte on the wire {:?})",
            ctx,
            hb,
            sb.get(16)
        ));
    }
    // built again from its decoded parts (`MessageConfig` + `Message::new`, with the storage header it was parsed with)
    {
        use dlt_core::dlt::{ExtendedHeaderConfig, Message, MessageConfig};
        let rebuilt = guard(|| {
            Message::new(
                MessageConfig {
                    version: m.header.version,
                    counter: m.header.message_counter,
                    endianness: m.header.endianness,
                    ecu_id: m.header.ecu_id.clone(),
                    session_id: m.header.session_id,
                    timestamp: m.header.timestamp,
                    payload: m.payload.clone(),
                    extended_header_info: m.extended_header.as_ref().map(|x| ExtendedHeaderConfig { message_type: x.message_type.clone(), app_id: x.application_id.clone(), context_id: x.context_id.clone() }),
                },
                m.storage_header.clone(),
            )
        })
        .map_err(|p| Violation::from_panic("Message::new from the decoded parts", &p))?;
        let (hb, rb) = guard(|| (rebuilt.header.header_type_byte(), rebuilt.as_bytes())).map_err(|p| Violation::from_panic("as_bytes of the rebuilt message", &p))?;
        if hb != h || rb.get(start) != Some(&h) {
            return Err(viol!("htyp:rebuilt", "{}: the message built again from the decoded parts carries header type {:#04x} (byte on the wire {:?})", ctx, hb, rb.get(start)));
        }
    }
    let bytes = guard(|| m.as_bytes()).map_err(|p| Violation::from_panic("as_bytes", &p))?;
    if bytes.get(start) != Some(&h) {
        return Err(viol!(
            "htyp:reserialise",
            "{}: the re-serialised message carries header type {:?}",
            ctx,
            bytes.get(start)
        ));
    }
    if canonical && bytes != b {
        return Err(viol!(
            "htyp:reserialise",
            "message ({}) re-serialises to {} instead of {}",
            ctx,
            hex_short(&bytes),
            hex_short(&b)
        ));
    }
    Ok(())
}

/// The message-info byte inside a message: decoded by the parser, re-encoded by building a message again from the
/// decoded parts (`MessageConfig` + `Message::new`, the crate's construction path) and serialising it.
fn check_msin_in_message(b: u8) -> Result<(), Violation> {
    use dlt_core::dlt::{ExtendedHeaderConfig, Message, MessageConfig};
    let mstp = (b >> 1) & 7;
    // payloads the kind admits: verbose -> no arguments; control -> service byte (equal to / different from the MTIN
    // nibble, above 15) + data; other non-verbose -> message id + data
    let payloads: Vec<Vec<u8>> = if b & 1 != 0 {
        // (verbose: no arguments; also no arguments but left-over payload bytes, which a parser may refuse)
        vec![vec![], vec![0x03, 1, 2]]
    } else if mstp == 3 {
        vec![vec![b >> 4, 9, 8], vec![0x03, 1], vec![0x13], vec![0x11, 7, 7, 7], vec![0xff, 0]]
    } else {
        vec![vec![1, 2, 3, 4, 5, 6]]
    };
    for ((big, blank), payload) in payloads.iter().flat_map(|p| [((false, false), p), ((true, false), p), ((false, true), p), ((true, true), p)]) {
        let mut bytes = vec![0x21 | if big { MSBF } else { 0 }, 0x33, 0, 0, b, 0];
        // (ids "APP" / "CTX", or both id fields blank: with MSIN 0 the whole extended header is ten zero bytes)
        bytes.extend_from_slice(if blank { b"\0\0\0\0\0\0\0\0" } else { b"APP\0CTX\0" });
        bytes.extend_from_slice(payload);
        let len = bytes.len() as u16;
        bytes[2..4].copy_from_slice(&len.to_be_bytes());
        let parsed = guard(|| dlt_message(&bytes, None, false).map(|(r, pm)| (r.len(), pm))).map_err(|p| Violation::from_panic(&format!("dlt_message on {}", hex_short(&bytes)), &p))?;
        let m = match parsed {
            Ok((0, ParsedMessage::Item(m))) => m,
            _ if b & 1 != 0 && !payload.is_empty() => continue,
            other => return Err(viol!("msin:message:parse", "message with MSIN {:#04x} ({}) did not parse: {}", b, hex_short(&bytes), short_dbg(&other))),
        };
        let Some(ext) = m.extended_header.clone() else {
            return Err(viol!("msin:message:parse", "message with MSIN {:#04x} parsed without extended header", b));
        };
        if ext.message_type != message_type_of(b) || ext.verbose != (b & 1 != 0) {
            return Err(viol!("msin:message:decode", "MSIN {:#04x} inside a message decoded to {:?} (verbose {}), the layout prescribes {:?}", b, ext.message_type, ext.verbose, message_type_of(b)));
        }
        let rebuilt = guard(|| {
            Message::new(
                MessageConfig {
                    version: m.header.version,
                    counter: m.header.message_counter,
                    endianness: m.header.endianness,
                    ecu_id: m.header.ecu_id.clone(),
                    session_id: m.header.session_id,
                    timestamp: m.header.timestamp,
                    payload: m.payload.clone(),
                    extended_header_info: Some(ExtendedHeaderConfig { message_type: ext.message_type.clone(), app_id: ext.application_id.clone(), context_id: ext.context_id.clone() }),
                },
                None,
            )
            .as_bytes()
        })
        .map_err(|p| Violation::from_panic("Message::new(..).as_bytes() from the decoded parts", &p))?;
        if rebuilt.get(4) != Some(&b) {
            return Err(viol!(
                "msin:message:reencode",
                "MSIN {:#04x}: a message built again from the decoded parts (payload {}) carries message info {:?}; {} -> {}",
                b, hex_short(payload), rebuilt.get(4), hex_short(&bytes), hex_short(&rebuilt)
            ));
        }
    }
    Ok(())
}

fn check_msin(b: u8) -> CheckResult {
    check_msin_in_message(b)?;
    let want = message_type_of(b);
    let got = guard(|| MessageType::try_from(b))
        .map_err(|p| Violation::from_panic(&format!("MessageType::try_from({:#04x})", b), &p))?;
    let got = match got {
        Ok(g) => g,
        Err(e) => {
            return Err(viol!(
                "msin:refused",
                "MessageType::try_from({:#04x}) failed: {}",
                b,
                e
            ))
        }
    };
    if got != want {
        return Err(viol!(
            "msin:decode",
            "MSIN {:#04x} (MSTP {} MTIN {}) decoded to {:?}, the layout prescribes {:?}",
            b,
            (b >> 1) & 7,
            b >> 4,
            got,
            want
        ));
    }
    let back = guard(|| u8::from(&got) | (b & 1))
        .map_err(|p| Violation::from_panic("u8::from(&MessageType)", &p))?;
    if back != b {
        return Err(viol!(
            "msin:reencode",
            "MSIN {:#04x} re-encodes to {:#04x} ({:?})",
            b,
            back,
            got
        ));
    }
    // the sub-type conversions called directly: each reads the MTIN nibble of the message-info byte (whatever its other
    // bits hold) and writes it back into bits 4-7
    {
        use dlt_core::dlt::{ApplicationTraceType, ControlType, LogLevel, NetworkTraceType};
        let mtin = b & 0xf0;
        macro_rules! sub {
            ($ty:ident, $mstp:expr, $variant:ident) => {{
                let want_sub = match message_type_of(mtin | ($mstp << 1)) {
                    MessageType::$variant(x) => x,
                    other => {
                        return Err(viol!(
                            "msin:table",
                            "layout table gives {:?} for MSTP {}",
                            other,
                            $mstp
                        ))
                    }
                };
                let got_sub = guard(|| $ty::try_from(b)).map_err(|p| {
                    Violation::from_panic(&format!("{}::try_from({:#04x})", stringify!($ty), b), &p)
                })?;
                match got_sub {
                    Ok(g) if g == want_sub => {
                        let back = guard(|| u8::from(&g)).map_err(|p| {
                            Violation::from_panic(&format!("u8::from(&{})", stringify!($ty)), &p)
                        })?;
                        if back != mtin {
                            return Err(viol!(
                                format!("msin:{}:reencode", stringify!($ty)),
                                "{:?} re-encodes to {:#04x}, its code is {:#04x}",
                                g,
                                back,
                                mtin
                            ));
                        }
                    }
                    other => {
                        return Err(viol!(
                            format!("msin:{}:decode", stringify!($ty)),
                            "{}::try_from({:#04x}) = {:?}, the layout prescribes {:?} for MTIN {}",
                            stringify!($ty),
                            b,
                            other,
                            want_sub,
                            b >> 4
                        ))
                    }
                }
            }};
        }
        sub!(LogLevel, 0u8, Log);
        sub!(ApplicationTraceType, 1u8, ApplicationTrace);
        sub!(NetworkTraceType, 2u8, NetworkTrace);
        sub!(ControlType, 3u8, Control);
    }
    // through a message with extended header
    let mut m = vec![0x21u8, 0, 0, 0, b, 0];
    m.extend_from_slice(b"APP\0CTX\0");
    let verbose = b & 1 != 0;
    if !verbose {
        m.extend_from_slice(&[1, 2, 3, 4, 5]);
    }
    let len = m.len() as u16;
    m[2..4].copy_from_slice(&len.to_be_bytes());
    let r = guard(|| dlt_message(&m, None, false).map(|(rest, pm)| (rest.len(), pm)))
        .map_err(|p| Violation::from_panic(&format!("dlt_message on {}", hex_short(&m)), &p))?;
    let Ok((0, ParsedMessage::Item(msg))) = r else {
        return Err(viol!(
            "msin:parse",
            "message with MSIN {:#04x} did not parse: {}",
            b,
            short_dbg(&r)
        ));
    };
    let e = msg.extended_header.as_ref().unwrap();
    if e.verbose != verbose || e.message_type != want {
        return Err(viol!(
            "msin:message",
            "message with MSIN {:#04x} has verbose={} type={:?}",
            b,
            e.verbose,
            e.message_type
        ));
    }
    let eb = guard(|| e.as_bytes())
        .map_err(|p| Violation::from_panic("ExtendedHeader::as_bytes", &p))?;
    if eb[0] != b {
        return Err(viol!(
            "msin:ext-header-bytes",
            "extended header with MSIN {:#04x} re-serialises with {:#04x}",
            b,
            eb[0]
        ));
    }
    Ok(Pass::new(true).class("msin"))
}

/// bits of a type-info word that carry information for the decoded kind
fn significant(k: RKind) -> u32 {
    let base = 0x7f0 | (1 << 11) | (1 << 13) | (7 << 15);
    match k {
        RKind::Bool | RKind::Str | RKind::Raw => base,
        RKind::Float(_) => base | 0xf,
        _ => base | 0xf | (1 << 12),
    }
}

#[inline]
fn check_type_info(w: u32) -> Result<bool, Violation> {
    let want = refcodec::decode_type(w);
    let got = TypeInfo::try_from(w);
    match (want, got) {
        (None, Err(_)) => Ok(false),
        (Some(rt), Ok(d)) => {
            let be = d.as_bytes::<BigEndian>();
            let le = d.as_bytes::<LittleEndian>();
            if be.len() != 4 || le.len() != 4 || be[0] != le[3] || be[1] != le[2] || be[2] != le[1] || be[3] != le[0] {
                return Err(viol!("typeinfo:byte-orders", "type info {:#010x}: big-endian bytes {} are not the reverse of little-endian bytes {}", w, hex_short(&be), hex_short(&le)));
            }
            let w2 = u32::from_be_bytes([be[0], be[1], be[2], be[3]]);
            match TypeInfo::try_from(w2) {
                Ok(d2) if d2 == d => {}
                other => return Err(viol!("typeinfo:reencode-decode", "type info {:#010x} -> {:?} -> {:#010x} -> {:?}", w, d, w2, other.ok())),
            }
            let diff = (w ^ w2) & significant(rt.kind);
            if diff != 0 {
                return Err(viol!("typeinfo:significant-bits", "type info {:#010x} ({:?}) re-encodes to {:#010x}: differs in significant bits {:#x}", w, d, w2, diff));
            }
            Ok(true)
        }
        (Some(rt), Err(e)) => Err(viol!("typeinfo:refused", "type info {:#010x} names the supported kind {:?} but was refused: {}", w, rt.kind, e)),
        (None, Ok(d)) => Err(viol!("typeinfo:accepted", "type info {:#010x} does not name one supported kind with a supported width but was accepted as {:?}", w, d)),
    }
}

pub fn check(c: &Case) -> CheckResult {
    match c {
        Case::Htyp(h) => check_htyp(*h),
        Case::Msin(b) => check_msin(*b),
        Case::TypeInfo(w) => guard(|| check_type_info(*w))
            .map_err(|p| {
                Violation::from_panic(
                    &format!("TypeInfo::try_from / as_bytes for {:#010x}", w),
                    &p,
                )
            })?
            .map(|a| {
                Pass::new(a).class(if a {
                    "typeinfo:accepted"
                } else {
                    "typeinfo:refused"
                })
            }),
    }
}

pub fn run(run: &Run) {
    run.rule(
        "exhaustive enumeration: all 256 HTYP bytes (each in a minimal message with the optional fields it announces, parsed and re-serialised; 4 fillings of the ECU field incl. empty and non-UTF-8 x with/without storage header x no filter and 7 filter configurations), all \
         256 MSIN bytes (MessageType::try_from vs the MSTP/MTIN table, re-encoding, through a message with extended header), and type-info words: \
         quick = all 2^18 values of bits 0-17 x 1024 patterns of bits 18-31 (268 M words), thorough = all 2^32 words; acceptance must equal the \
         reference predicate (exactly one of BOOL/SINT/UINT/FLOA/STRG/RAWD among bits 4-10, TYLE 1..5 for integers, 3..4 for fixed point and float), \
         accepted words re-encode to a word that decodes to the same description, differs only in unused bits, same in both byte orders up to \
         reversal; every word of the low 18 bits is also decoded directly after each of its one-bit neighbours (history independence); non-trivial = every HTYP/MSIN byte and every accepted type-info word; cases are distinct by construction",
    );
    run.assume("the bit layout tables (model.rs message_type_of, refcodec.rs decode_type) are written from the AUTOSAR PRS and are the trusted reference");
    run.regressions(&replay);
    run.enumerate("htyp", 256, true, |i| {
        let mut r = BlockReport {
            evaluations: 1,
            ..Default::default()
        };
        match check_htyp(i as u8) {
            Ok(_) => r.nontrivial = 1,
            Err(v) => r.violation = Some((json!(Case::Htyp(i as u8)), v)),
        }
        if i == 0x35 {
            r.sample = Some(json!({"htyp": "0x35"}));
        }
        r
    });
    run.enumerate("msin", 256, true, |i| {
        let mut r = BlockReport {
            evaluations: 1,
            ..Default::default()
        };
        match check_msin(i as u8) {
            Ok(_) => r.nontrivial = 1,
            Err(v) => r.violation = Some((json!(Case::Msin(i as u8)), v)),
        }
        if i == 0x41 {
            r.sample = Some(json!({"msin": "0x41"}));
        }
        r
    });
    let thorough = run.tier == Tier::Thorough;
    // upper-bit patterns for the quick tier: bits 18..31
    let uppers: Vec<u32> = if thorough {
        vec![]
    } else {
        let mut u = vec![0u32, 0x3fff];
        for i in 0..14 {
            u.push(1 << i);
            u.push(0x3fff ^ (1 << i));
        }
        let mut s = 0x9E37u64;
        while u.len() < 1024 {
            s = crate::util::splitmix64(s);
            let v = (s as u32) & 0x3fff;
            if !u.contains(&v) {
                u.push(v);
            }
        }
        u
    };
    let blocks: u64 = if thorough { 1 << 14 } else { 1024 };
    let uppers = &uppers;
    run.enumerate("type-info", blocks, thorough, |b| {
        let mut rep = BlockReport::default();
        let upper = if thorough { b as u32 } else { uppers[b as usize] };
        let res = guard(|| {
            let mut accepted = 0u64;
            for low in 0u32..(1 << 18) {
                let w = (upper << 18) | low;
                match check_type_info(w) {
                    Ok(a) => accepted += a as u64,
                    Err(v) => return Err((w, v)),
                }
            }
            Ok(accepted)
        });
        rep.evaluations = 1 << 18;
        match res {
            Ok(Ok(a)) => {
                rep.nontrivial = a;
                rep.classes = vec![("typeinfo:accepted", a), ("typeinfo:refused", (1 << 18) - a)];
            }
            Ok(Err((w, v))) => rep.violation = Some((json!(Case::TypeInfo(w)), v)),
            Err(p) => rep.violation = Some((json!({"upper": upper}), Violation::from_panic("type-info enumeration", &p))),
        }
        if b == 0 {
            rep.sample = Some(json!({"type_info_words": format!("{:#x}..={:#x}", upper << 18, (upper << 18) | 0x3ffff)}));
        }
        rep
    });
    // call histories: decoding is a pure function of the word, so a word must be judged the same way whatever was
    // decoded just before — every word of the low 18 bits is decoded directly after each of its 32 one-bit neighbours
    // and after itself (64 blocks of 4096 words)
    run.enumerate("type-info-after-neighbour", 64, true, |b| {
        let mut rep = BlockReport::default();
        let res = guard(|| {
            for low in (b as u32) * 4096..(b as u32 + 1) * 4096 {
                for bit in 0..33u32 {
                    let first = if bit == 32 { low } else { low ^ (1 << bit) };
                    if let Err(v) = check_type_info(first) {
                        return Err((first, low, v));
                    }
                    if let Err(v) = check_type_info(low) {
                        return Err((first, low, v));
                    }
                }
            }
            Ok(())
        });
        rep.evaluations = 4096 * 33 * 2;
        rep.nontrivial = 4096 * 33;
        match res {
            Ok(Ok(())) => {}
            Ok(Err((first, w, v))) => rep.violation = Some((json!({"history": [format!("{:#010x}", first), format!("{:#010x}", w)], "TypeInfo": w}), Violation::new(v.sig.clone(), format!("after decoding {:#010x}: {}", first, v.msg)))),
            Err(p) => rep.violation = Some((json!({"block": b}), Violation::from_panic("type-info history enumeration", &p))),
        }
        if b == 1 {
            rep.sample = Some(json!({"pairs": "(w ^ 1<<bit, w) for every w in 0x1000..0x2000 and bit 0..32"}));
        }
        rep
    });
    if !thorough {
        run.extra("type_info_space", json!("bits 0-17 exhaustive x 1024 patterns of bits 18-31 (quick); the thorough tier enumerates all 2^32 words"));
    }
}

pub fn replay(section: &str, case: &Json) -> Option<CheckResult> {
    if section == "type-info-after-neighbour" {
        // re-execute the two-call history
        let parse = |v: &Json| {
            v.as_str()
                .and_then(|s| u32::from_str_radix(s.trim_start_matches("0x"), 16).ok())
        };
        let h = case["history"].as_array()?;
        let (first, w) = (parse(h.first()?)?, parse(h.get(1)?)?);
        return Some(
            check_type_info(first)
                .and_then(|_| check_type_info(w))
                .map(|_| Pass::new(true).class("history")),
        );
    }
    case_from::<Case>(case).map(|c| check(&c))
}
