//! C03 — no byte sequence can crash the slice parsers or the use of what they return.
use crate::gen::{bytes as gb, message as g};
use crate::model::*;
use crate::oracle;
use crate::runner::*;
use proptest::collection::vec;
use proptest::prelude::*;
use serde::{Deserialize, Serialize};
use serde_json::Value as Json;

#[derive(Debug, Clone, Hash, PartialEq, Eq, Serialize, Deserialize)]
pub struct Case {
    #[serde(with = "crate::util::hexser")]
    pub buf: Vec<u8>,
    pub filter: u8,
    pub format_logs: bool,
    pub size_sel: u8,
    pub types: Vec<RType>,
    pub big_endian: bool,
    /// a generated filter configuration, converted through the owned or the borrowed From impl
    #[serde(default)]
    pub gen_filter: Option<(super::c04::Filter, bool)>,
}

pub fn check(c: &Case) -> CheckResult {
    oracle::install_logger();
    oracle::format_logs(c.format_logs && c.buf.len() < 4096);
    let types: Vec<_> = c.types.iter().map(type_to_crate).collect();
    let r = oracle::c03(&c.buf, c.filter, c.size_sel, &types, c.big_endian).and_then(|pass| {
        // the message parser under a generated filter configuration (both conversion paths), both storage modes
        if let Some((f, borrowed)) = &c.gen_filter {
            let cfg = f.to_crate();
            let pf = if *borrowed {
                dlt_core::filtering::ProcessedDltFilterConfig::from(&cfg)
            } else {
                dlt_core::filtering::ProcessedDltFilterConfig::from(cfg)
            };
            for storage in [false, true] {
                let what = format!(
                    "dlt_message(storage={}, generated filter {:?}, borrowed conversion {})",
                    storage, f, borrowed
                );
                let res = crate::util::guard(|| {
                    dlt_core::parse::dlt_message(&c.buf, Some(&pf), storage).map(|(_, pm)| pm)
                })
                .map_err(|p| {
                    Violation::from_panic(
                        &format!("{} on {}", what, crate::util::hex_short(&c.buf)),
                        &p,
                    )
                })?;
                if let Ok(dlt_core::parse::ParsedMessage::Item(m)) = &res {
                    oracle::use_message(m, &what)?;
                }
            }
        }
        Ok(pass)
    });
    oracle::format_logs(false);
    r
}

pub fn signal_types() -> BoxedStrategy<Vec<RType>> {
    vec(
        (g::kind(), any::<bool>(), any::<bool>(), g::scod()).prop_map(
            |(kind, vari, trai, scod)| RType {
                kind,
                vari,
                trai,
                scod,
            },
        ),
        0..10,
    )
    .boxed()
}

pub fn strategy() -> impl Strategy<Value = Case> {
    (
        any::<bool>(),
        0u8..8,
        prop::bool::weighted(0.3),
        any::<u8>(),
        signal_types(),
        any::<bool>(),
        prop::option::weighted(0.5, (super::c04::filter(), any::<bool>())),
    )
        .prop_flat_map(
            |(storage, filter, format_logs, size_sel, types, big_endian, gen_filter)| {
                gb::hostile(storage).prop_map(move |buf| Case {
                    buf,
                    filter,
                    format_logs,
                    size_sel,
                    types: types.clone(),
                    big_endian,
                    gen_filter: gen_filter.clone(),
                })
            },
        )
}

pub fn run(run: &Run) {
    run.rule(
        "cases = hostile byte strings (canonical+suffix, wire-level dialect, mutated, arbitrary, > 64 KiB) x filter configuration (7 fixed ones, and in half of the cases a generated one converted through the owned or the borrowed From impl) x logger formatting \
         on/off x string size x signal-type list; every slice entry point is called under catch_unwind with overflow checks on (dlt_message in all \
         four storage/filter modes, dlt_consume_msg, skip_storage_header, forward_to_next_storage_header, dlt_zero_terminated_string, \
         construct_arguments) and every returned message is re-serialised, measured and validated; non-trivial = at least one entry point got past \
         the headers (message, filtered marker or a non-incomplete error); distinct by the whole case",
    );
    run.assume("a null logger at Trace level is installed so that the argument expressions of dlt-core's log calls are evaluated; panics are observed through catch_unwind, arithmetic overflow through overflow-checks=on");
    run.regressions(&replay);
    run.random(
        "entry-points",
        run.cases(300_000, 6_000_000),
        0.4,
        strategy,
        check,
    );
}

pub fn replay(section: &str, case: &Json) -> Option<CheckResult> {
    if section.starts_with("fuzz-") {
        return super::fuzz_replay("C03", section, case);
    }
    case_from::<Case>(case).map(|c| check(&c))
}
