//! C04 — a successful parse consumes exactly the declared message and makes progress.
use crate::gen::bytes as gb;
use crate::oracle;
use crate::runner::*;
use dlt_core::filtering::{DltFilterConfig, ProcessedDltFilterConfig};
use proptest::collection::vec;
use proptest::prelude::*;
use serde::{Deserialize, Serialize};
use serde_json::Value as Json;

#[derive(Debug, Clone, Hash, PartialEq, Eq, Serialize, Deserialize)]
pub struct Filter {
    pub min_log_level: Option<u8>,
    pub app_ids: Option<Vec<String>>,
    pub ecu_ids: Option<Vec<String>>,
    pub context_ids: Option<Vec<String>>,
    pub app_id_count: i64,
    pub context_id_count: i64,
}
impl Filter {
    pub fn to_crate(&self) -> DltFilterConfig {
        DltFilterConfig {
            min_log_level: self.min_log_level,
            app_ids: self.app_ids.clone(),
            ecu_ids: self.ecu_ids.clone(),
            context_ids: self.context_ids.clone(),
            app_id_count: self.app_id_count,
            context_id_count: self.context_id_count,
        }
    }
}
pub fn id_list() -> BoxedStrategy<Option<Vec<String>>> {
    prop_oneof![
        2 => Just(None),
        3 => vec(filter_id(), 0..4).prop_map(Some),
    ]
    .boxed()
}
/// an id as it may stand in a filter configuration: mostly the ids messages carry (small shared pool), sometimes a
/// near miss of one of them (longer than the 4 bytes of the wire field, a proper prefix, another letter case, padded) —
/// membership is by equality of the whole string, so a near miss must never admit the message
pub fn filter_id() -> BoxedStrategy<String> {
    let pool = crate::gen::message::pool_id;
    prop_oneof![
        12 => pool(),
        2 => (pool(), prop::sample::select(vec!["0", "1", "X", " ", "\u{0}", "é", "10"])).prop_map(|(p, s)| format!("{}{}", p, s)),
        1 => (pool(), 0usize..4).prop_map(|(p, k)| p.chars().take(k).collect::<String>()),
        1 => pool().prop_map(|p| if p.chars().any(|c| c.is_ascii_uppercase()) { p.to_ascii_lowercase() } else { p.to_ascii_uppercase() }),
        1 => pool().prop_map(|p| format!(" {}", p)),
    ]
    .boxed()
}
pub fn filter() -> BoxedStrategy<Filter> {
    (
        prop_oneof![2 => Just(None), 3 => (0u8..9).prop_map(Some), 1 => any::<u8>().prop_map(Some)],
        id_list(),
        id_list(),
        id_list(),
        (
            -1i64..=1,
            -1i64..=1,
            prop::sample::select(vec![0u8, 0, 0, 0, 0, 0, 1, 2, 3, 4, 5]),
        ),
    )
        .prop_map(
            |(min_log_level, app_ids, ecu_ids, context_ids, (da, dc, special))| {
                let set_len = |l: &Option<Vec<String>>| {
                    l.as_ref()
                        .map(|v| v.iter().collect::<std::collections::BTreeSet<_>>().len() as i64)
                        .unwrap_or(0)
                };
                let (mut a, mut c) = (set_len(&app_ids) + da, set_len(&context_ids) + dc);
                match special {
                    1 => a = 0,
                    2 => c = -5,
                    3 => {
                        a = 1000;
                        c = i64::MAX
                    }
                    4 => {
                        a = i64::MIN;
                        c = i64::MIN + 1
                    }
                    5 => {
                        a = i64::MAX;
                        c = i64::MIN
                    }
                    _ => {}
                }
                Filter {
                    min_log_level,
                    app_ids,
                    ecu_ids,
                    context_ids,
                    app_id_count: a,
                    context_id_count: c,
                }
            },
        )
        .boxed()
}

#[derive(Debug, Clone, Hash, PartialEq, Eq, Serialize, Deserialize)]
pub struct Case {
    #[serde(with = "crate::util::hexser")]
    pub buf: Vec<u8>,
    pub storage: bool,
    pub filter: Filter,
}

pub fn check(c: &Case) -> CheckResult {
    let f = ProcessedDltFilterConfig::from(c.filter.to_crate());
    let p1 = oracle::c04(&c.buf, c.storage, Some(&f))?;
    let p2 = oracle::c04(&c.buf, !c.storage, Some(&f))?;
    let mut pass = Pass::new(p1.nontrivial || p2.nontrivial);
    pass.classes = p1.classes;
    pass.classes.extend(p2.classes);
    pass.classes.sort();
    pass.classes.dedup();
    Ok(pass)
}

pub fn strategy() -> impl Strategy<Value = Case> {
    (any::<bool>(), filter()).prop_flat_map(|(storage, filter)| {
        gb::hostile(storage).prop_map(move |buf| Case {
            buf,
            storage,
            filter: filter.clone(),
        })
    })
}

pub fn run(run: &Run) {
    run.rule(
        "cases = hostile byte strings (biased to parseable but inconsistent messages: declared payload longer/shorter than the encoded arguments, \
         NOAR off, trailing second message, junk before the storage pattern) x both storage modes x 8 fixed + 1 generated filter configuration; \
         oracle computed from the raw bytes only: consumed = offset of first pattern + 16 + big-endian LEN (or LEN), FilteredOut(n) = LEN - header \
         length, all filters leave the same remainder, dlt_consume_msg consumes 16 + LEN, iteration ends within len/4+2 steps; non-trivial = an Ok \
         result whose payload is not an exact fit, or skipped junk, or a filtered-out message; distinct by the whole case",
    );
    run.assume("the expected consumption is computed from the input bytes only (pattern search, LEN at offset 2, HTYP flags), no crate helper");
    run.regressions(&replay);
    run.random(
        "consumption",
        run.cases(300_000, 6_000_000),
        0.15,
        strategy,
        check,
    );
}

pub fn replay(section: &str, case: &Json) -> Option<CheckResult> {
    if section.starts_with("fuzz-") {
        return super::fuzz_replay("C04", section, case);
    }
    case_from::<Case>(case).map(|c| check(&c))
}
