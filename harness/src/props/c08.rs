//! C08 — the async reader delivers what the blocking reader delivers, on any schedule.
use super::readers::*;
use crate::runner::*;
use crate::util::hex_short;
use crate::viol;
use proptest::prelude::*;
use serde::{Deserialize, Serialize};
use serde_json::Value as Json;

#[derive(Debug, Clone, Hash, PartialEq, Eq, Serialize, Deserialize)]
pub struct Case {
    #[serde(with = "crate::util::hexser")]
    pub stream: Vec<u8>,
    pub storage: bool,
    pub schedule: Schedule,
    pub reader_kind: u8,
    pub filter: u8,
    /// a second filter configuration passed at the odd-numbered calls (the filter is an argument of every call)
    #[serde(default)]
    pub filter2: Option<u8>,
    pub systematic: bool,
}

fn compare(c: &Case, sched: &Schedule, api_sel: u64, pass: &mut Pass) -> Result<(), Violation> {
    let slices = api_sel;
    let filter = filter_for(c.filter);
    let (blocking, _) = drive_blocking(
        &c.stream,
        c.storage,
        &Schedule::always_ready(),
        c.reader_kind,
        filter.as_ref(),
        slices,
    );
    let (got, trace) = drive_async(
        &c.stream,
        c.storage,
        sched,
        c.reader_kind,
        filter.as_ref(),
        slices,
    );
    let api = if slices == API_SLICE {
        "next_message_slice"
    } else if slices == API_MESSAGE {
        "read_message"
    } else {
        "alternating"
    };
    let ctx = || {
        format!(
            "storage={} reader_kind={} filter={} schedule={:?} stream={}",
            c.storage,
            c.reader_kind,
            c.filter,
            sched,
            hex_short(&c.stream)
        )
    };
    let reference = reference(&c.stream, c.storage, filter.as_ref(), slices);
    for o in &got {
        match o {
            Outcome::Panic(p) => {
                let hostile = if reference.hostile_at.is_some() {
                    "declared-length<4"
                } else {
                    "other"
                };
                return Err(viol!(
                    format!("async:{}:panic:{}", api, hostile),
                    "async {} panicked: {}; {}",
                    api,
                    p,
                    ctx()
                ));
            }
            Outcome::Runaway(w) => {
                return Err(viol!(
                    format!("async:{}:runaway", api),
                    "async {} did not finish: {}; {}",
                    api,
                    w,
                    ctx()
                ))
            }
            _ => {}
        }
    }
    if blocking
        .iter()
        .any(|o| matches!(o, Outcome::Panic(_) | Outcome::Runaway(_)))
    {
        // the blocking reader itself misbehaves on this stream: that is C07's finding, nothing to compare against
        pass.classes.push("blocking-reader-misbehaves(C07)");
        return Ok(());
    }
    if got.len() != blocking.len() {
        return Err(viol!(
            format!("async:{}:sequence-length", api),
            "async {} produced {} outcomes, the blocking reader {}: async [{}] blocking [{}]; {}",
            api,
            got.len(),
            blocking.len(),
            got.iter().map(|o| o.short()).collect::<Vec<_>>().join(", "),
            blocking
                .iter()
                .map(|o| o.short())
                .collect::<Vec<_>>()
                .join(", "),
            ctx()
        ));
    }
    for i in 0..got.len() {
        if !got[i].same(&blocking[i]) {
            return Err(viol!(
                format!("async:{}:outcome-differs", api),
                "async {} outcome #{} is {} but the blocking reader gives {}; {}",
                api,
                i,
                got[i].short(),
                blocking[i].short(),
                ctx()
            ));
        }
    }
    let s = if c.storage { 16 } else { 0 };
    let splits_header = trace.boundaries.iter().any(|b| {
        reference
            .starts
            .iter()
            .any(|st| *b > *st && *b < *st + s + 4)
    });
    let msgs = got
        .iter()
        .filter(|o| {
            matches!(
                o,
                Outcome::Item(_) | Outcome::Slice(_) | Outcome::Filtered(_)
            )
        })
        .count();
    if msgs >= 1 && (splits_header || trace.stalls > 0) {
        pass.nontrivial = true;
    }
    pass.classes.push(if slices == API_SLICE {
        "api:next_message_slice"
    } else if slices == API_MESSAGE {
        "api:read_message"
    } else {
        "api:alternating-entry-points"
    });
    if splits_header {
        pass.classes.push("ready-boundary-inside-a-header");
    }
    if trace.stalls > 0 {
        pass.classes.push("schedule-has-pending");
    }
    if reference.truncated_in_header {
        pass.classes.push("truncated-in-header");
    }
    if reference.truncated_in_body {
        pass.classes.push("truncated-in-body");
    }
    if reference.hostile_at.is_some() {
        pass.classes.push("declared-length<4");
    }
    if msgs >= 2 {
        pass.classes.push(">=2-messages");
    }
    pass.subcases += 1;
    Ok(())
}

pub fn check(c: &Case) -> CheckResult {
    crate::props::readers::with_alternating_filter(c.filter2, || check_inner(c))
}
fn check_inner(c: &Case) -> CheckResult {
    let mut pass = Pass::new(false);
    compare(c, &c.schedule, API_MESSAGE, &mut pass)?;
    compare(c, &c.schedule, API_SLICE, &mut pass)?;
    // both entry points alternately on the same reader (pattern derived from the case)
    let mix = crate::util::splitmix64(
        c.stream.len() as u64 ^ ((c.filter as u64) << 32) ^ c.schedule.steps.len() as u64,
    ) | 2;
    compare(c, &c.schedule, mix & !1, &mut pass)?;
    if c.systematic && c.stream.len() <= 400 {
        for chunk in 1..=64u16 {
            for stall in [false, true] {
                compare(c, &Schedule::constant(chunk, stall), API_MESSAGE, &mut pass)?;
            }
        }
        // two pendings before every ready
        let mut steps = vec![];
        for _ in 0..c.stream.len() + 2 {
            steps.extend([Step::Stall, Step::Stall, Step::Data(3)]);
        }
        compare(
            c,
            &Schedule {
                steps,
                then_chunk: 0,
                then_stall: false,
            },
            API_MESSAGE,
            &mut pass,
        )?;
        pass.classes.push("systematic-schedules");
    }
    pass.classes.sort();
    pass.classes.dedup();
    Ok(pass)
}

pub fn strategy() -> impl Strategy<Value = Case> {
    (
        any::<bool>(),
        schedule(),
        0u8..6,
        (prop_oneof![3 => Just(0u8), 1 => 1u8..9], prop_oneof![6 => Just(None), 1 => (0u8..9).prop_map(Some)]),
        prop::bool::weighted(0.1),
    )
        .prop_flat_map(|(storage, schedule, reader_kind, (filter, filter2), systematic)| {
            stream(storage).prop_map(move |stream| Case {
                stream,
                storage,
                schedule: schedule.clone(),
                reader_kind,
                filter,
                filter2,
                systematic,
            })
        })
}

pub fn run(run: &Run) {
    run.rule(
        "cases = byte stream (as C07) x poll schedule owned by the harness (list of Poll::Pending / Poll::Ready(k>=1) steps, the source wakes the waker \
         before returning Pending; then constant chunk with optional pending before every ready) x reader construction x filter; 10% of short streams \
         additionally run chunk=1..64 x {no pending, pending before every ready} and 'two pendings before every ready'; the async reader is polled on a \
         hand-rolled executor with a poll budget (exhausting it = the reader stays pending on its own); its outcome sequence (messages by bits, error \
         class, end) must equal the blocking reader's on the same bytes with an always-ready source; non-trivial = >= 1 message and a Pending or a \
         Ready boundary inside a header; sub_evaluations counts (stream, schedule, api) runs",
    );
    run.assume("the blocking reader on an always-ready source is the reference (its own conformance is C07); streams on which it panics are attributed to C07, not compared");
    run.regressions(&replay);
    run.random(
        "poll-schedules",
        run.cases(60_000, 1_000_000),
        0.2,
        strategy,
        check,
    );
}

pub fn replay(_section: &str, case: &Json) -> Option<CheckResult> {
    case_from::<Case>(case).map(|c| check(&c))
}
