//! C06 — storage-header resync skips exactly the bytes before the first pattern.
use crate::gen::message as g;
use crate::model::*;
use crate::refcodec;
use crate::runner::*;
use crate::util::{expand_bytes, guard, hex_short};
use crate::viol;
use dlt_core::parse::{dlt_message, forward_to_next_storage_header, ParsedMessage};
use proptest::collection::vec;
use proptest::prelude::*;
use serde::{Deserialize, Serialize};
use serde_json::Value as Json;

#[derive(Debug, Clone, Hash, PartialEq, Eq, Serialize, Deserialize)]
pub enum Case {
    Search(#[serde(with = "crate::util::hexser")] Vec<u8>),
    Parse {
        #[serde(with = "crate::util::hexser")]
        junk: Vec<u8>,
        msg: RMsg,
        #[serde(with = "crate::util::hexser")]
        suffix: Vec<u8>,
        /// index of a filter configuration (0 = none): skipping junk must not depend on whether the message is then kept
        #[serde(default)]
        filter: u8,
    },
    Stream {
        msgs: Vec<RMsg>,
        #[serde(with = "crate::util::hexser_vec")]
        junks: Vec<Vec<u8>>,
        #[serde(default)]
        filter: u8,
    },
}

/// remove every occurrence of the pattern (keeps the junk precondition by construction)
pub fn scrub(mut j: Vec<u8>) -> Vec<u8> {
    // one pass: changing the last byte of an occurrence cannot create a new occurrence further left
    let mut i = 0;
    while i + 4 <= j.len() {
        if &j[i..i + 4] == b"DLT\x01" {
            j[i + 3] = 0x02;
            i += 4;
        } else {
            i += 1;
        }
    }
    j
}
fn junk() -> BoxedStrategy<Vec<u8>> {
    let tail = prop::sample::select(vec![
        vec![],
        b"D".to_vec(),
        b"DL".to_vec(),
        b"DLT".to_vec(),
        b"DLTD".to_vec(),
        b"DLTDL".to_vec(),
        b"DLTDLT".to_vec(),
    ]);
    prop_oneof![
        2 => Just(vec![]),
        4 => (vec(prop::sample::select(vec![b'D', b'L', b'T', 1u8, 0, 9]), 0..40), tail.clone()).prop_map(|(mut a, t)| { a.extend(t); a }),
        3 => (vec(any::<u8>(), 0..60), tail).prop_map(|(mut a, t)| { a.extend(t); a }),
        1 => (any::<u64>(), 0usize..5000, 0u8..6).prop_map(|(s, l, a)| expand_bytes(s, l, a)),
        // text (valid UTF-8 with multi-byte characters at every alignment)
        2 => (any::<u64>(), 0usize..200, 1u8..4, 0usize..4).prop_map(|(s, l, a, pre)| {
            let mut t = "xyz"[..pre].to_string();
            t.push_str(&crate::util::expand_text(s, l, a));
            t.into_bytes()
        }),
        // a complete stored record whose marker got damaged (one to four bytes of "DLT\x01" changed), optionally with
        // a few more bytes around it
        2 => (g::message(g::MsgParams { storage: g::StorageMode::Always, large: false, ..Default::default() }), vec((0usize..4, any::<u8>()), 1..3), vec(any::<u8>(), 0..4), vec(any::<u8>(), 0..4))
            .prop_map(|(m, dmg, pre, post)| {
                let mut e = refcodec::encode(&m);
                for (k, v) in dmg {
                    e[k] = if v == e[k] { v ^ 1 } else { v };
                }
                let mut j = pre;
                j.extend(e);
                j.extend(post);
                j
            }),
    ]
    .prop_map(scrub)
    .boxed()
}

fn check_search(buf: &[u8]) -> CheckResult {
    let want = refcodec::find_pattern(buf);
    let got = guard(|| {
        forward_to_next_storage_header(buf).map(|(n, rest)| (n, rest.len(), rest.as_ptr() as usize))
    })
    .map_err(|p| {
        Violation::from_panic(
            &format!("forward_to_next_storage_header on {}", hex_short(buf)),
            &p,
        )
    })?;
    match (want, got) {
        (None, None) => Ok(Pass::new(buf.len() >= 4).class("search:absent")),
        (Some(k), Some((n, rest_len, ptr))) => {
            if n as usize != k || rest_len != buf.len() - k || ptr != buf.as_ptr() as usize + k {
                return Err(viol!("search:wrong-offset", "first pattern is at {} but the search reports {} dropped bytes and a remainder of {} bytes ({})", k, n, rest_len, hex_short(buf)));
            }
            // history: the same buffer (same address, same leading bytes) was searched in vain a moment ago — a block
            // read into a reused buffer — and now holds the pattern: search and parse answer as for a fresh buffer
            if k >= 1 && buf.len() <= 100_000 {
                let mut scratch = buf.to_vec();
                let later = refcodec::find_pattern(&buf[k + 1..]).map(|p| p + k + 1);
                scratch[k + 3] = 0x02;
                let vain = guard(|| forward_to_next_storage_header(&scratch).map(|(n, _)| n))
                    .map_err(|p| Violation::from_panic("forward_to_next_storage_header", &p))?;
                if vain.map(|n| n as usize) != later {
                    return Err(viol!(
                        "search:presence",
                        "pattern position is {:?} but the search returned {:?} ({})",
                        later,
                        vain,
                        hex_short(&scratch)
                    ));
                }
                let _ = guard(|| dlt_message(&scratch, None, true).map(|(r, _)| r.len()));
                scratch[k + 3] = 0x01;
                let again = guard(|| forward_to_next_storage_header(&scratch).map(|(n, _)| n))
                    .map_err(|p| Violation::from_panic("forward_to_next_storage_header", &p))?;
                if again != Some(k as u64) {
                    return Err(viol!("search:history", "the same buffer searched in vain a moment ago and refilled: the pattern at {} is reported at {:?} ({})", k, again, hex_short(buf)));
                }
                // (the reused buffer first: nothing else is parsed between the vain attempt and this one)
                let reused =
                    guard(|| dlt_message(&scratch, None, true).map(|(r, pm)| (r.len(), pm)))
                        .map_err(|p| Violation::from_panic("dlt_message", &p))?;
                let fresh = guard(|| dlt_message(buf, None, true).map(|(r, pm)| (r.len(), pm)))
                    .map_err(|p| Violation::from_panic("dlt_message", &p))?;
                if format!("{:?}", fresh) != format!("{:?}", reused) {
                    return Err(viol!("parse:history", "a reused buffer parses differently from a fresh one with the same bytes: {} vs {} ({})", short_dbg(&reused), short_dbg(&fresh), hex_short(buf)));
                }
            }
            let again = refcodec::find_pattern(&buf[k + 1..]).is_some();
            Ok(Pass::new(true)
                .class("search:found")
                .class_if(k > 0, "search:junk-before")
                .class_if(again, "search:several-patterns"))
        }
        (w, g) => Err(viol!(
            "search:presence",
            "pattern position is {:?} but the search returned {:?} ({})",
            w,
            g.map(|x| x.0),
            hex_short(buf)
        )),
    }
}

fn check_parse(junk: &[u8], msg: &RMsg, suffix: &[u8], filter: u8) -> CheckResult {
    if refcodec::find_pattern(junk).is_some() || msg.storage.is_none() {
        return Ok(Pass::new(false).class("outside-domain"));
    }
    let mut plain = to_crate(msg).as_bytes();
    plain.extend_from_slice(suffix);
    let mut with = junk.to_vec();
    with.extend_from_slice(&plain);
    let a = guard(|| dlt_message(&plain, None, true).map(|(rest, pm)| (rest.to_vec(), pm)))
        .map_err(|p| Violation::from_panic("dlt_message", &p))?;
    let b = guard(|| dlt_message(&with, None, true).map(|(rest, pm)| (rest.to_vec(), pm)))
        .map_err(|p| Violation::from_panic("dlt_message with junk prefix", &p))?;
    let bad = |what: &str, d: String| {
        viol!(
            format!("junk-prefix:{}", what),
            "junk ++ message does not parse like message alone ({}): {}\n  junk={}\n  message={}",
            what,
            d,
            hex_short(junk),
            hex_short(&plain)
        )
    };
    match (&a, &b) {
        (Ok((ra, ParsedMessage::Item(ma))), Ok((rb, ParsedMessage::Item(mb)))) => {
            msg_eq_bits(ma, mb).map_err(|d| bad("message", d))?;
            msg_eq_bits(&to_crate(msg), mb).map_err(|d| bad("not-the-original", d))?;
            if ra != rb || rb != suffix {
                return Err(bad(
                    "remainder",
                    format!(
                        "{} bytes left vs {} bytes left, suffix has {}",
                        ra.len(),
                        rb.len(),
                        suffix.len()
                    ),
                ));
            }
        }
        _ => {
            return Err(bad(
                "result",
                format!("alone: {} / with junk: {}", short_dbg(&a), short_dbg(&b)),
            ))
        }
    }
    // the same with a filter configuration: kept or filtered out, junk in front changes neither the result nor the remainder
    let f = crate::oracle::filter_by_index(filter);
    let mut filtered_out = false;
    if let Some(f) = &f {
        let a = guard(|| dlt_message(&plain, Some(f), true).map(|(rest, pm)| (rest.to_vec(), pm)))
            .map_err(|p| Violation::from_panic("dlt_message with filter", &p))?;
        let b = guard(|| dlt_message(&with, Some(f), true).map(|(rest, pm)| (rest.to_vec(), pm)))
            .map_err(|p| {
            Violation::from_panic("dlt_message with filter and junk prefix", &p)
        })?;
        match (&a, &b) {
            (Ok((ra, ParsedMessage::Item(ma))), Ok((rb, ParsedMessage::Item(mb)))) => {
                msg_eq_bits(ma, mb).map_err(|d| bad("filter:message", d))?;
                if ra != rb || rb != suffix {
                    return Err(bad(
                        "filter:remainder",
                        format!(
                            "kept by filter #{}: {} bytes left vs {} bytes left, suffix has {}",
                            filter,
                            ra.len(),
                            rb.len(),
                            suffix.len()
                        ),
                    ));
                }
            }
            (
                Ok((ra, ParsedMessage::FilteredOut(na))),
                Ok((rb, ParsedMessage::FilteredOut(nb))),
            ) => {
                filtered_out = true;
                if na != nb || ra != rb || rb != suffix {
                    return Err(bad("filter:remainder", format!("filtered out by filter #{}: FilteredOut({}) with {} bytes left vs FilteredOut({}) with {} bytes left, suffix has {}", filter, na, ra.len(), nb, rb.len(), suffix.len())));
                }
            }
            _ => {
                return Err(bad(
                    "filter:result",
                    format!(
                        "filter #{}: alone: {} / with junk: {}",
                        filter,
                        short_dbg(&a),
                        short_dbg(&b)
                    ),
                ))
            }
        }
    }
    let partial = junk.ends_with(b"D") || junk.ends_with(b"DL") || junk.ends_with(b"DLT");
    Ok(Pass::new(!junk.is_empty())
        .class_if(f.is_some(), "with-filter")
        .class_if(filtered_out, "filtered-out-behind-junk")
        .class("parse")
        .class_if(partial, "junk-ends-with-partial-pattern")
        .class_if(junk.len() >= 16, "junk>=16")
        .class_if(junk.is_empty(), "no-junk"))
}

fn check_stream(msgs: &[RMsg], junks: &[Vec<u8>], filter: u8) -> CheckResult {
    if junks.iter().any(|j| refcodec::find_pattern(j).is_some())
        || msgs.iter().any(|m| m.storage.is_none())
    {
        return Ok(Pass::new(false).class("outside-domain"));
    }
    let mut buf = vec![];
    for (i, m) in msgs.iter().enumerate() {
        buf.extend_from_slice(junks.get(i).map(|j| j.as_slice()).unwrap_or(&[]));
        buf.extend(to_crate(m).as_bytes());
    }
    buf.extend_from_slice(junks.get(msgs.len()).map(|j| j.as_slice()).unwrap_or(&[]));
    let mut got = vec![];
    let mut input = &buf[..];
    for _ in 0..msgs.len() + 2 {
        let r = guard(|| dlt_message(input, None, true))
            .map_err(|p| Violation::from_panic("dlt_message over a stream with junk", &p))?;
        match r {
            Ok((rest, ParsedMessage::Item(m))) => {
                got.push(m);
                input = rest;
            }
            Ok((_, other)) => {
                return Err(viol!(
                    "stream:not-item",
                    "stream parse returned {:?}",
                    other
                ))
            }
            Err(_) => break,
        }
    }
    if got.len() != msgs.len() {
        return Err(viol!(
            "stream:count",
            "stream of {} messages with junk between them yielded {} messages ({})",
            msgs.len(),
            got.len(),
            hex_short(&buf)
        ));
    }
    for (i, (g, m)) in got.iter().zip(msgs.iter()).enumerate() {
        msg_eq_bits(&to_crate(m), g).map_err(|d| {
            viol!(
                "stream:message",
                "message {} of the stream differs: {}",
                i,
                d
            )
        })?;
    }
    // with a filter: one result per message, in order — the kept ones equal to the originals, the dropped ones with their payload length
    let f = crate::oracle::filter_by_index(filter);
    let mut dropped = 0;
    if let Some(f) = &f {
        let mut input = &buf[..];
        let mut n = 0usize;
        for _ in 0..msgs.len() + 2 {
            let r = guard(|| dlt_message(input, Some(f), true)).map_err(|p| {
                Violation::from_panic("dlt_message with filter over a stream with junk", &p)
            })?;
            match r {
                Ok((rest, pm)) => {
                    let Some(m) = msgs.get(n) else {
                        return Err(viol!(
                            "stream:filter:count",
                            "filtered stream parse of {} messages yields more than {} results ({})",
                            msgs.len(),
                            msgs.len(),
                            hex_short(&buf)
                        ));
                    };
                    match pm {
                        ParsedMessage::Item(g) => msg_eq_bits(&to_crate(m), &g).map_err(|d| {
                            viol!(
                                "stream:filter:message",
                                "message {} of the filtered stream differs: {}",
                                n,
                                d
                            )
                        })?,
                        ParsedMessage::FilteredOut(k) => {
                            dropped += 1;
                            if k != m.len as usize - m.headers_len() {
                                return Err(viol!("stream:filter:payload-length", "result {} of the filtered stream is FilteredOut({}) but message {} has a payload of {} bytes", n, k, n, m.len as usize - m.headers_len()));
                            }
                        }
                        ParsedMessage::Invalid => {
                            return Err(viol!(
                                "stream:filter:invalid",
                                "result {} of the filtered stream is Invalid",
                                n
                            ))
                        }
                    }
                    n += 1;
                    input = rest;
                }
                Err(_) => break,
            }
        }
        if n != msgs.len() {
            return Err(viol!("stream:filter:count", "stream of {} messages with junk between them yielded {} results with filter #{} ({})", msgs.len(), n, filter, hex_short(&buf)));
        }
    }
    let some_junk = junks.iter().any(|j| !j.is_empty());
    Ok(Pass::new(some_junk && msgs.len() >= 2)
        .class_if(f.is_some(), "with-filter")
        .class_if(dropped > 0, "filtered-out-behind-junk")
        .class("stream")
        .class_if(msgs.len() >= 3, "stream>=3-messages"))
}

/// a small fixed stored message for the boundary enumeration
fn boundary_message() -> RMsg {
    RMsg {
        storage: Some(RStorage {
            secs: 1,
            micros: 2,
            ecu: "ECU".to_string(),
        }),
        htyp: UEH | WEID,
        mcnt: 9,
        len: 4 + 4 + 10 + 6,
        ecu: Some("E1".to_string()),
        seid: None,
        tmsp: None,
        ext: Some(RExt {
            msin: 0x40,
            noar: 0,
            apid: "APP".to_string(),
            ctid: "CTX".to_string(),
        }),
        payload: RPayload::NonVerbose(0x01020304, vec![5, 6]),
    }
}

pub fn check(c: &Case) -> CheckResult {
    match c {
        Case::Search(b) => check_search(b),
        Case::Parse {
            junk,
            msg,
            suffix,
            filter,
        } => check_parse(junk, msg, suffix, *filter),
        Case::Stream {
            msgs,
            junks,
            filter,
        } => check_stream(msgs, junks, *filter),
    }
}

pub fn strategy() -> impl Strategy<Value = Case> {
    let fidx = || prop_oneof![1 => Just(0u8), 1 => 1u8..8];
    let stored = || {
        g::message(g::MsgParams {
            storage: g::StorageMode::Always,
            large: false,
            ..Default::default()
        })
    };
    let planted = (
        vec(prop::sample::select(vec![b'D', b'L', b'T', 1u8, 0]), 0..40),
        vec((any::<u16>(), Just(b"DLT\x01".to_vec())), 0..3),
    )
        .prop_map(|(mut b, plants)| {
            for (p, pat) in plants {
                let k = (p as usize * (b.len() + 1)) >> 16;
                b.splice(k..k, pat);
            }
            b
        });
    // record heads: marker + 12 storage bytes (blank / filled) + 4 bytes where the standard header would be (blank / a
    // valid header start / arbitrary), a few of them with filler between: unwritten, half-written and written records
    let heads = vec(
        (
            vec(prop::sample::select(vec![0u8, b'x', 9]), 0..6),
            prop_oneof![Just(vec![0u8; 12]), vec(any::<u8>(), 12), Just(b"\x01\x02\x03\x04\x05\x06\x07\x08ECU1".to_vec())],
            prop_oneof![Just(vec![0u8; 4]), Just(vec![0x21u8, 1, 0, 14]), vec(any::<u8>(), 4), Just(vec![])],
            vec(any::<u8>(), 0..12),
        ),
        1..4,
    )
    .prop_map(|hs| {
        let mut b = vec![];
        for (lead, st, std, fill) in hs {
            b.extend(lead);
            b.extend_from_slice(b"DLT\x01");
            b.extend(st);
            b.extend(std);
            b.extend(fill);
        }
        b
    });
    prop_oneof![
        300 => prop_oneof![vec(any::<u8>(), 0..80), vec(prop::sample::select(vec![b'D', b'L', b'T', 1u8]), 0..24), planted, heads].prop_map(Case::Search),
        150 => (any::<u64>(), 0usize..70_000, 1u8..6, any::<u16>()).prop_map(|(s, l, a, p)| {
            let mut b = expand_bytes(s, l, a);
            let k = (p as usize * (b.len() + 1)) >> 16;
            b.splice(k..k, b"DLT\x01".iter().cloned());
            Case::Search(b)
        }),
        // more than a megabyte in one slice
        1 => prop_oneof![
            (any::<u64>(), 1_048_000usize..2_600_000, 1u8..6, any::<u16>(), any::<bool>()).prop_map(|(s, l, a, p, plant)| {
                let mut b = scrub(expand_bytes(s, l, a));
                if plant {
                    let k = b.len() - 1 - ((p as usize * 70_000) >> 16).min(b.len() - 1);
                    b.splice(k..k, b"DLT\x01".iter().cloned());
                }
                Case::Search(b)
            }),
            (any::<u64>(), 1_048_000usize..2_600_000, 1u8..6, stored(), g::suffix(), fidx()).prop_map(|(s, l, a, msg, suffix, filter)| Case::Parse { junk: scrub(expand_bytes(s, l, a)), msg, suffix, filter }),
        ],
        600 => (junk(), prop_oneof![8 => stored(), 1 => g::message(g::MsgParams { storage: g::StorageMode::Always, ..Default::default() })], prop_oneof![3 => g::suffix(), 1 => (vec(any::<u8>(), 1..20), stored()).prop_map(|(mut j, m)| { j.extend(refcodec::encode(&m)); j })], fidx())
            .prop_map(|(junk, msg, mut suffix, filter)| {
                // sometimes the record is directly followed by an identical copy of itself (a logger that rewrote its last buffer)
                if junk.len() % 5 == 1 {
                    let mut twice = refcodec::encode(&msg);
                    if suffix.len() % 2 == 0 {
                        twice.extend(refcodec::encode(&msg));
                    }
                    twice.extend(suffix);
                    suffix = twice;
                }
                Case::Parse { junk, msg, suffix, filter }
            }),
        300 => (prop_oneof![2 => vec(stored(), 1..6), 1 => vec(g::message(g::MsgParams { storage: g::StorageMode::Always, large: false, pool_ids: true, ..Default::default() }), 1..6)], vec(junk(), 7), fidx()).prop_map(|(msgs, mut junks, filter)| {
            // sometimes records are doubled (identical neighbours with no junk between them)
            let mut out = vec![];
            let mut j2 = vec![junks[0].clone()];
            for (i, m) in msgs.iter().enumerate() {
                out.push(m.clone());
                let own_junk = junks.get(i + 1).cloned().unwrap_or_default();
                if (m.mcnt as usize + i) % 4 == 0 && out.len() < 7 {
                    j2.push(vec![]);
                    out.push(m.clone());
                }
                j2.push(own_junk);
            }
            junks = j2;
            Case::Stream { msgs: out, junks, filter }
        }),
    ]
}

/// block b of the block-boundary section (a pure function of the block number, so a stuck block can be replayed)
fn straddle_block(b: u64) -> BlockReport {
        let mut rep = BlockReport::default();
        let block = 16usize << b; // 16 .. 2 MiB
        for mult in [1usize, 2, 3] {
            if block * mult > (2 << 20) + 8 {
                continue;
            }
            for d in 0..=8usize {
                let at = block * mult + 4 - d; // pattern starts 4 bytes behind .. 4 bytes before the boundary
                let at = at.saturating_sub(4);
                for fill in [0u8, 3] {
                    let junk = scrub(expand_bytes(0xC06 ^ (at as u64) ^ ((fill as u64) << 40), at, fill + 1));
                    let mut buf = junk.clone();
                    buf.extend_from_slice(b"DLT\x01");
                    buf.extend_from_slice(&[7u8; 9]);
                    let cases = [
                        Case::Search(buf),
                        Case::Parse { junk, msg: boundary_message(), suffix: vec![1, 2, 3], filter: if d % 2 == 0 { 0 } else { 1 } },
                    ];
                    for case in cases {
                        rep.evaluations += 1;
                        match check(&case) {
                            Ok(p) => rep.nontrivial += p.nontrivial as u64,
                            Err(v) => {
                                if rep.violation.is_none() {
                                    rep.violation = Some((serde_json::json!(case), v));
                                }
                            }
                        }
                    }
                }
            }
        }
        if b == 3 {
            rep.sample = Some(serde_json::json!({"block": block, "pattern offsets": "block*{1,2,3} - 4 ..= + 4", "cases": "search + junk-prefixed parse"}));
        }
        rep
    }

pub fn run(run: &Run) {
    run.rule(
        "search: arbitrary and low-entropy {D,L,T,01} strings with 0..3 planted patterns (also 70 KB inputs) against a naive first-occurrence search; \
         parse: junk (pattern scrubbed out by construction; tails that are partial patterns encouraged) ++ message ++ suffix must parse to the same \
         message and remainder as message ++ suffix, without a filter and with one of 7 filter configurations (kept or FilteredOut alike); stream: \
         junk0 m1 junk1 ... mk junk_k parsed repeatedly must yield exactly m1..mk (with a filter: one result per message in order, kept = original, \
         dropped = its payload length); block-boundary straddles: pattern (and a junk-prefixed message) placed from 4 bytes before to 4 bytes behind every \
         multiple (x1..x3) of every power-of-two block size 16 B .. 2 MiB; non-trivial = \
         pattern found / junk non-empty / stream of >= 2 messages with junk; distinct by the whole case",
    );
    run.assume("'DLT\\x01' has no border, so junk without a full pattern cannot create an earlier occurrence together with the message start");
    run.regressions(&replay);
    // the pattern (and a message behind junk) straddling every power-of-two block boundary from 16 bytes to 2 MiB
    run.enumerate("block-boundary-straddles", 18, true, straddle_block);
    run.random(
        "resync",
        run.cases(300_000, 5_000_000),
        0.4,
        strategy,
        check,
    );
}

pub fn replay(_section: &str, case: &Json) -> Option<CheckResult> {
    if let Some(b) = case.get("enum_block").and_then(|b| b.as_u64()) {
        let rep = straddle_block(b);
        return Some(match rep.violation {
            Some((_, v)) => Err(v),
            None => Ok(Pass::new(true).class("block-boundary-straddles")),
        });
    }
    case_from::<Case>(case).map(|c| check(&c))
}
