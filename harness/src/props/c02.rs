//! C02 — writer and parser agree with an independent reference codec of the DLT format.
use crate::gen::{bytes as gb, message as g};
use crate::model::*;
use crate::oracle;
use crate::refcodec;
use crate::runner::*;
use crate::util::{guard, hex_short, splitmix64};
use crate::viol;
use proptest::prelude::*;
use serde::{Deserialize, Serialize};
use serde_json::{json, Value as Json};

#[derive(Debug, Clone, Hash, PartialEq, Eq, Serialize, Deserialize)]
pub enum Case {
    Encode(RMsg),
    Decode {
        #[serde(with = "crate::util::hexser")]
        buf: Vec<u8>,
        storage: bool,
    },
}

pub fn check_encode(m: &RMsg) -> CheckResult {
    let cm = to_crate(m);
    let got =
        guard(|| cm.as_bytes()).map_err(|p| Violation::from_panic("Message::as_bytes", &p))?;
    let (want, map) = refcodec::encode_with_map(m);
    if got != want {
        let pos = got
            .iter()
            .zip(want.iter())
            .position(|(a, b)| a != b)
            .unwrap_or(got.len().min(want.len()));
        let role = map
            .iter()
            .find(|f| f.start <= pos && pos < f.end)
            .map(|f| format!("{:?}", f.role))
            .unwrap_or_else(|| "length".to_string());
        return Err(viol!(
            format!("encode:{}:{}", m.payload_kind(), role),
            "Message::as_bytes differs from the reference layout at byte {} (field {}): crate {} / reference {} for {}",
            pos, role, hex_short(&got), hex_short(&want), short_dbg(&cm)
        ));
    }
    let nonempty = m.len as usize > m.headers_len();
    let mut pass = Pass::new(nonempty);
    pass.classes = g::classes_of(m);
    Ok(pass)
}

pub fn check(c: &Case) -> CheckResult {
    match c {
        Case::Encode(m) => check_encode(m),
        Case::Decode { buf, storage } => {
            // the generator's mode first, then the other mode: every buffer is judged in both
            let p1 = oracle::c02_decode(buf, *storage)?;
            let p2 = oracle::c02_decode(buf, !*storage)?;
            let mut pass = Pass::new(p1.nontrivial || p2.nontrivial);
            pass.classes = p1.classes;
            pass.classes.extend(p2.classes);
            pass.classes.sort();
            pass.classes.dedup();
            Ok(pass)
        }
    }
}

pub fn decode_strategy() -> impl Strategy<Value = Case> {
    any::<bool>().prop_flat_map(|storage| {
        gb::hostile(storage).prop_map(move |buf| Case::Decode { buf, storage })
    })
}

pub fn run(run: &Run) {
    run.rule(
        "encode: systematic grid (32 header-flag combinations x 256 MSIN bytes x 2 storage modes, each cell filled with a generated payload of the \
         admitted kind) then free well-formed messages, crate bytes compared byte for byte with the reference encoder; decode: hostile byte \
         strings (canonical+suffix, wire-level dialect, 1-3 mutations of a canonical encoding, arbitrary / low-entropy, > 64 KiB), each judged in \
         both storage modes against the reference decoder's verdict (message fields + consumed length / incomplete / reject). non-trivial: encode = \
         non-empty payload; decode = buffer >= 4 bytes with verdict 'message with payload' or 'reject'. distinct by the whole case",
    );
    run.assume("the reference codec (harness/src/refcodec.rs) is written from the AUTOSAR PRS layout and shares no code with dlt-core; dialect accepted as listed in DESIGN.md 3.2");
    run.assume("where the buffer is too short and the visible length field is already inconsistent the reference accepts both 'incomplete' and 'reject'");
    run.regressions(&replay);
    // systematic grid: 16384 cells in 64 blocks
    let seed = run.seed;
    run.enumerate("encode-grid", 64, false, |block| {
        let mut rep = BlockReport::default();
        let mut sampler = Sampler::new(splitmix64(seed ^ (0xC02 << 20) ^ block));
        for i in 0..256u64 {
            let cell = block * 256 + i;
            let flags = (cell & 31) as u8;
            let msin = ((cell >> 5) & 255) as u8;
            let storage = if (cell >> 13) & 1 == 1 {
                g::StorageMode::Always
            } else {
                g::StorageMode::Never
            };
            let strat = g::message(g::MsgParams {
                storage,
                large: false,
                pool_ids: false,
                cell: Some((flags, msin)),
                free_noar: true,
            });
            rep.evaluations += 1;
            match sampler.check(&strat, &|m: &RMsg| check_encode(m)) {
                Ok((m, p)) => {
                    rep.nontrivial += p.nontrivial as u64;
                    if i == 77 && rep.sample.is_none() {
                        let mut v = json!(m);
                        truncate_json(&mut v);
                        rep.sample = Some(v);
                    }
                }
                Err((m, v)) => {
                    if rep.violation.is_none() {
                        rep.violation = Some((json!(Case::Encode(m)), v));
                    }
                }
            }
        }
        rep.classes = vec![("grid-cell", 256)];
        rep
    });
    run.random(
        "encode",
        run.cases(150_000, 2_000_000),
        0.5,
        || {
            g::message(g::MsgParams {
                free_noar: true,
                ..Default::default()
            })
            .prop_map(Case::Encode)
        },
        check,
    );
    run.random(
        "decode",
        run.cases(400_000, 8_000_000),
        0.4,
        decode_strategy,
        check,
    );
}

pub fn replay(section: &str, case: &Json) -> Option<CheckResult> {
    if section.starts_with("fuzz-") {
        return super::fuzz_replay("C02", section, case);
    }
    case_from::<Case>(case).map(|c| check(&c))
}
