//! C16 — re-serialising any parsed message is stable: it parses back to the same message.
use crate::gen::bytes as gb;
use crate::oracle;
use crate::runner::*;
use proptest::prelude::*;
use serde::{Deserialize, Serialize};
use serde_json::Value as Json;

#[derive(Debug, Clone, Hash, PartialEq, Eq, Serialize, Deserialize)]
pub struct Case {
    #[serde(with = "crate::util::hexser")]
    pub buf: Vec<u8>,
    pub storage: bool,
}

pub fn check(c: &Case) -> CheckResult {
    let p1 = oracle::c16(&c.buf, c.storage)?;
    let p2 = oracle::c16(&c.buf, !c.storage)?;
    let mut pass = Pass::new(p1.nontrivial || p2.nontrivial);
    pass.classes = p1.classes;
    pass.classes.extend(p2.classes);
    pass.classes.sort();
    pass.classes.dedup();
    Ok(pass)
}

pub fn strategy() -> impl Strategy<Value = Case> {
    any::<bool>()
        .prop_flat_map(|storage| gb::hostile(storage).prop_map(move |buf| Case { buf, storage }))
}

pub fn run(run: &Run) {
    run.rule(
        "cases = hostile byte strings x both storage modes; whenever dlt_message returns a message m and m.as_bytes() has the length m's header \
         declares: parse(as_bytes(m)) must be exactly m (floats by bits) with nothing left and serialising again must give the same bytes; \
         non-trivial = precondition true and the consumed input was not already the canonical encoding (the parser normalised something: TYLE on \
         bool/string/raw, unused bits, padded ids, unknown enum codes, reserved codings ...); distinct by the whole case",
    );
    run.assume("inputs whose re-serialisation has a different length than declared (strings cut at a NUL, invalid UTF-8, left-over payload bytes, dropped network-trace arguments) are outside the statement's precondition and only counted");
    run.regressions(&replay);
    run.random(
        "fixpoint",
        run.cases(400_000, 8_000_000),
        0.08,
        strategy,
        check,
    );
}

pub fn replay(section: &str, case: &Json) -> Option<CheckResult> {
    if section.starts_with("fuzz-") {
        return super::fuzz_replay("C16", section, case);
    }
    case_from::<Case>(case).map(|c| check(&c))
}
