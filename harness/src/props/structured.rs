//! Coverage-guided *structured* fuzzing: the libFuzzer input is used as the entropy source of the property's own
//! proptest strategy (proptest's pass-through RNG), so libFuzzer mutates the random choices that build a case
//! (message shape, schedule, filter configuration, model layout ...) and its coverage feedback steers them, while
//! the oracle is the same `check` function the seeded search uses.  A failing input is turned back into the case,
//! shrunk with proptest's simplify/complicate protocol under the same violation signature, and saved as an ordinary
//! replay file of the property (the saved case, not the fuzzer input, is the reproducible unit).
use super::*;
use crate::gen::message as g;
use crate::runner::{CheckResult, Violation};
use proptest::prelude::*;
use proptest::strategy::ValueTree;
use proptest::test_runner::{Config, RngAlgorithm, TestRng, TestRunner};
use serde::Serialize;
use serde_json::{json, Value as Json};
use std::fmt::Debug;

pub struct Outcome {
    /// section name under which the property's `replay` understands the case
    pub section: &'static str,
    /// the (shrunk, when asked) case — `Null` when the check passed
    pub case: Json,
    pub result: CheckResult,
}

fn drive<C: Debug + Serialize, S: Strategy<Value = C>>(strat: &S, data: &[u8], check: &dyn Fn(&C) -> CheckResult, shrink: bool) -> Option<(Json, CheckResult)> {
    let cfg = Config { failure_persistence: None, ..Config::default() };
    // entropy = the fuzzer bytes followed by a fixed pseudo-random tail: rand's uniform sampling rejects some draws, and
    // the all-zero stream the pass-through RNG produces once it is exhausted would be rejected forever
    let mut entropy = Vec::with_capacity(data.len() + TAIL_LEN);
    entropy.extend_from_slice(data);
    entropy.extend_from_slice(tail());
    let mut runner = TestRunner::new_with_rng(cfg, TestRng::from_seed(RngAlgorithm::PassThrough, &entropy));
    let mut tree = strat.new_tree(&mut runner).ok()?;
    let first = tree.current();
    match check(&first) {
        Ok(p) => Some((Json::Null, Ok(p))),
        Err(v0) => {
            if !shrink {
                return Some((json!(first), Err(v0)));
            }
            let sig = v0.sig.clone();
            let mut best: (C, Violation) = (first, v0);
            let mut iters = 0;
            if tree.simplify() {
                loop {
                    iters += 1;
                    if iters > 3000 {
                        break;
                    }
                    let cur = tree.current();
                    match check(&cur) {
                        Err(v) if v.sig == sig => {
                            best = (cur, v);
                            if !tree.simplify() {
                                break;
                            }
                        }
                        _ => {
                            if !tree.complicate() {
                                break;
                            }
                        }
                    }
                }
            }
            Some((json!(best.0), Err(best.1)))
        }
    }
}

const TAIL_LEN: usize = 256 * 1024;
fn tail() -> &'static [u8] {
    static TAIL: std::sync::OnceLock<Vec<u8>> = std::sync::OnceLock::new();
    TAIL.get_or_init(|| {
        let mut x = 0x9E37_79B9_7F4A_7C15u64;
        let mut v = Vec::with_capacity(TAIL_LEN);
        while v.len() < TAIL_LEN {
            x = crate::util::splitmix64(x);
            v.extend_from_slice(&x.to_le_bytes());
        }
        v
    })
}

macro_rules! cached {
    ($ty:ty, $strat:expr, $check:expr, $data:expr, $shrink:expr) => {{
        thread_local! {
            static S: BoxedStrategy<$ty> = $strat.boxed();
        }
        S.with(|s| drive(s, $data, &$check, $shrink))
    }};
}

/// properties served by the structured target
pub const PROPERTIES: [&str; 17] = ["C01", "C02", "C03", "C04", "C05", "C06", "C07", "C08", "C09", "C10", "C11", "C13", "C15", "C16", "C17", "C18", "C19"];

/// Build the case of property `id` from fuzzer bytes and judge it. `None` = property not served / no case.
pub fn run(id: &str, data: &[u8], shrink: bool) -> Option<Outcome> {
    crate::util::install_panic_hook();
    let (section, r) = match id {
        "C01" => ("roundtrip", cached!(c01::Case, c01::strategy(), c01::check, data, shrink)),
        "C02" => {
            let (&sel, rest) = data.split_first()?;
            if sel & 1 == 0 {
                ("encode", cached!(c02::Case, g::message(g::MsgParams::default()).prop_map(c02::Case::Encode), c02::check, rest, shrink))
            } else {
                ("decode", cached!(c02::Case, c02::decode_strategy(), c02::check, rest, shrink))
            }
        }
        "C03" => ("entry-points", cached!(c03::Case, c03::strategy(), c03::check, data, shrink)),
        "C04" => ("consumption", cached!(c04::Case, c04::strategy(), c04::check, data, shrink)),
        "C05" => ("prefixes", cached!(c05::Case, c05::strategy(), c05::check, data, shrink)),
        "C06" => ("resync", cached!(c06::Case, c06::strategy(), c06::check, data, shrink)),
        "C07" => ("schedules", cached!(c07::Case, c07::strategy(), c07::check, data, shrink)),
        "C08" => ("poll-schedules", cached!(c08::Case, c08::strategy(), c08::check, data, shrink)),
        "C09" => ("filter", cached!(c09::Case, c09::strategy(), c09::check, data, shrink)),
        "C10" => ("streams", cached!(c10::Case, c10::strategy(), c10::check, data, shrink)),
        "C11" => ("models", cached!(c11::Case, c11::strategy(), c11::check, data, shrink)),
        "C13" => {
            let (&sel, rest) = data.split_first()?;
            if sel & 1 == 0 {
                ("construct", cached!(c13::Case, c13::strategy(), c13::check, rest, shrink))
            } else {
                ("arbitrary-payloads", cached!(c13::RawCase, c13::raw_strategy(), c13::check_raw, rest, shrink))
            }
        }
        "C15" => ("configs", cached!(c15::Case, c15::strategy(), c15::check, data, shrink)),
        "C16" => ("fixpoint", cached!(c16::Case, c16::strategy(), c16::check, data, shrink)),
        "C17" => ("random", cached!(c17::Case, c17::strategy(), c17::check, data, shrink)),
        "C18" => ("random", cached!(c18::Case, c18::strategy(), c18::check, data, shrink)),
        "C19" => ("random", cached!(c19::Case, c19::strategy(), c19::check, data, shrink)),
        _ => return None,
    };
    let (case, result) = r?;
    Some(Outcome { section, case, result })
}
