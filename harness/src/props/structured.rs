//! Coverage-guided *structured* fuzzing (libFuzzer target `strat`): the fuzzer input is decoded by hand — an
//! `arbitrary`-style data-provider layer — into the same `Case` values the seeded proptest search generates
//! (well-formed message, suffix, read / poll schedule, filter configuration, merge history ...), and judged by the
//! same `check` function.  libFuzzer mutates the choices that build a case and its coverage feedback steers them.
//! Decoding is total (an exhausted input reads as zeros) and sound by construction: it builds messages through
//! `gen::message::finish`, i.e. inside the domain of well-formed messages the properties quantify over.
//! A failing input is minimised at byte level under the same violation signature, decoded once more, and the
//! *decoded case* is saved as an ordinary replay file of the property (the reproducible unit).
//!
//! (A first attempt drove the proptest strategies themselves from the fuzzer bytes through proptest's pass-through
//! RNG.  That does not work: every `prop_flat_map` / `prop_perturb` forks the RNG and a pass-through RNG forks by
//! halving the remaining byte window, so nested strategies run out of entropy after a few levels, and the all-zero
//! stream an exhausted window yields is rejected forever by rand's uniform sampling — DESIGN.md section 9.)
use super::readers::{Schedule, Step};
use super::*;
use crate::gen::message as g;
use crate::model::*;
use crate::refcodec;
use crate::runner::CheckResult;
use crate::util::{expand_bytes, expand_text};
use serde_json::{json, Value as Json};

pub struct Outcome {
    /// section name under which the property's `replay` understands the case
    pub section: &'static str,
    pub case: Json,
    pub result: CheckResult,
}

/// properties served by the structured target
pub const PROPERTIES: [&str; 12] = [
    "C01", "C02", "C05", "C06", "C07", "C08", "C09", "C10", "C15", "C17", "C18", "C19",
];

// ------------------------------------------------------------------------------------------------
// the data provider

pub struct U<'a> {
    b: &'a [u8],
    p: usize,
}
impl<'a> U<'a> {
    pub fn new(b: &'a [u8]) -> Self {
        U { b, p: 0 }
    }
    pub fn u8(&mut self) -> u8 {
        let v = self.b.get(self.p).copied().unwrap_or(0);
        self.p += 1;
        v
    }
    pub fn u16(&mut self) -> u16 {
        u16::from_le_bytes([self.u8(), self.u8()])
    }
    pub fn u32(&mut self) -> u32 {
        u32::from_le_bytes([self.u8(), self.u8(), self.u8(), self.u8()])
    }
    pub fn u64(&mut self) -> u64 {
        (self.u32() as u64) | (self.u32() as u64) << 32
    }
    pub fn u128(&mut self) -> u128 {
        (self.u64() as u128) | (self.u64() as u128) << 64
    }
    /// a number in 0..n
    pub fn below(&mut self, n: usize) -> usize {
        if n <= 1 {
            0
        } else if n <= 256 {
            self.u8() as usize % n
        } else if n <= 65536 {
            self.u16() as usize % n
        } else {
            self.u32() as usize % n
        }
    }
    pub fn bool(&mut self) -> bool {
        self.u8() & 1 != 0
    }
    /// true with probability `num`/256
    pub fn chance(&mut self, num: u8) -> bool {
        self.u8() < num
    }
    pub fn pick<T: Clone>(&mut self, v: &[T]) -> T {
        v[self.below(v.len())].clone()
    }
    /// up to `max` bytes (fewer when the input ends)
    pub fn bytes(&mut self, max: usize) -> Vec<u8> {
        let n = self.below(max + 1);
        let avail = self.b.len().saturating_sub(self.p);
        let n = n.min(avail);
        let v = self.b[self.p.min(self.b.len())..self.p.min(self.b.len()) + n].to_vec();
        self.p += n;
        v
    }
    pub fn rest(&mut self) -> Vec<u8> {
        let v = self.b[self.p.min(self.b.len())..].to_vec();
        self.p = self.b.len();
        v
    }
}

// ------------------------------------------------------------------------------------------------
// decoders (mirror gen::message clause by clause)

const CHARS: &[&str] = &[
    "A", "b", "7", " ", "_", "D", "L", "T", "\u{1}", "\u{7f}", "é", "ß", "€", "日", "𝄞", "~", "/",
    "\"", "<", "&",
];
const POOL: &[&str] = &[
    "", "A", "APP", "APP1", "CTX", "ECU", "é", "€a", "TEST", "Ab7 ", "NONE", "APP ", "app", "Ecu", "Ł",
];

fn short_text(u: &mut U, max: usize) -> String {
    let n = u.below(max.min(12) + 1);
    let mut s = String::new();
    for _ in 0..n {
        let c = CHARS[u.below(CHARS.len())];
        if s.len() + c.len() <= max {
            s.push_str(c);
        }
    }
    s
}
fn text(u: &mut U, big: usize) -> String {
    match u.below(17) {
        0..=11 => short_text(u, 12),
        12..=15 => expand_text(u.u64(), u.below(64), u.below(4) as u8),
        _ => expand_text(u.u64(), u.below(big + 1), u.below(4) as u8),
    }
}
fn blob(u: &mut U, big: usize) -> Vec<u8> {
    match u.below(16) {
        15 => {
            // carrier: 2..=4 complete stored records back to back, optionally framed by a few bytes
            let seed = u.u64();
            let framed = u.chance(80);
            let mut b = if framed { u.bytes(2) } else { vec![] };
            for k in 0..2 + u.below(3) {
                b.extend(g::inner_record(seed.wrapping_add(k as u64)));
            }
            if framed {
                b.extend(u.bytes(2));
            }
            b
        }
        0..=9 => u.bytes(11),
        10..=13 => expand_bytes(u.u64(), u.below(64), u.below(6) as u8),
        _ => expand_bytes(u.u64(), u.below(big + 1), u.below(6) as u8),
    }
}
fn id(u: &mut U, pool: bool) -> String {
    if pool {
        return POOL[u.below(POOL.len())].to_string();
    }
    match u.below(9) {
        0..=3 => short_text(u, 4),
        4..=6 => {
            let n = 1 + u.below(4);
            (0..n)
                .map(|_| b"ABCDEFGHIJKLMNOPQRSTUVWXYZ0123456789"[u.below(36)] as char)
                .collect()
        }
        7 => String::new(),
        _ => u
            .pick(&["ECU", "APP", "CON", "DLT\u{1}", "TEST", "€a", "𝄞"])
            .to_string(),
    }
}
fn uint_value(u: &mut U, bits: u8) -> u128 {
    let mask: u128 = if bits == 128 {
        u128::MAX
    } else {
        (1u128 << bits) - 1
    };
    match u.below(9) {
        0..=2 => {
            u.pick(&[
                0u128,
                1,
                2,
                0x7f,
                0x80,
                0xff,
                0x100,
                1000,
                u128::MAX,
                u128::MAX >> 1,
                (u128::MAX >> 1) + 1,
            ]) & mask
        }
        3..=6 => u.u128() & mask,
        _ => {
            let v = u.u128();
            (v >> u.below(128)) & mask
        }
    }
}
fn sint_value(u: &mut U, bits: u8) -> i128 {
    let sh = 128 - bits as u32;
    ((uint_value(u, bits) << sh) as i128) >> sh
}
fn f32_bits(u: &mut U) -> u32 {
    if u.chance(96) {
        u.pick(&[
            0u32,
            0x8000_0000,
            0x3f80_0000,
            0xbf80_0000,
            0x7f80_0000,
            0xff80_0000,
            0x7fc0_0000,
            0x7fa0_0001,
            0xffc1_2345,
            1,
            0x007f_ffff,
            0x3c23_d70a,
            0x3dcc_cccd,
            0x4120_0000,
            0x3f00_0000,
        ])
    } else {
        u.u32()
    }
}
fn f64_bits(u: &mut U) -> u64 {
    if u.chance(96) {
        u.pick(&[
            0u64,
            0x8000_0000_0000_0000,
            0x3ff0_0000_0000_0000,
            0x7ff0_0000_0000_0000,
            0xfff0_0000_0000_0000,
            0x7ff8_0000_0000_0000,
            0x7ff4_0000_0000_0001,
            1,
        ])
    } else {
        u.u64()
    }
}
pub fn value_for(u: &mut U, kind: RKind, big: usize) -> RVal {
    match kind {
        RKind::Bool => RVal::Bool(if u.chance(170) {
            u.below(2) as u8
        } else {
            u.u8()
        }),
        RKind::Sint(b) | RKind::SintFx(b) => RVal::I(sint_value(u, b)),
        RKind::Uint(b) | RKind::UintFx(b) => RVal::U(uint_value(u, b)),
        RKind::Float(32) => RVal::F32(f32_bits(u)),
        RKind::Float(_) => RVal::F64(f64_bits(u)),
        RKind::Str => RVal::Str(text(u, big)),
        RKind::Raw => RVal::Raw(blob(u, big)),
    }
}
fn kind(u: &mut U) -> RKind {
    match u.below(21) {
        i @ 0..=17 => g::ALL_KINDS[i],
        18 | 19 => RKind::Raw,
        _ => RKind::Str,
    }
}
fn arg(u: &mut U, big: usize) -> RArg {
    let kind = kind(u);
    let val = value_for(u, kind, big);
    let scod = match u.below(8) {
        0..=2 => 0,
        3..=5 => 1,
        _ => 2 + u.below(6) as u8,
    };
    let vari = u.chance(90);
    let trai = u.chance(38);
    let numeric = !matches!(kind, RKind::Bool | RKind::Str | RKind::Raw);
    let name = if vari { Some(text(u, 700)) } else { None };
    let unit = if vari && numeric {
        Some(text(u, 700))
    } else {
        None
    };
    let fixp = match kind {
        RKind::SintFx(32) | RKind::UintFx(32) => {
            Some((f32_bits(u), sint_value(u, 64) as i32 as i64))
        }
        RKind::SintFx(_) | RKind::UintFx(_) => Some((f32_bits(u), sint_value(u, 64) as i64)),
        _ => None,
    };
    RArg {
        ty: RType {
            kind,
            vari,
            trai,
            scod,
        },
        name,
        unit,
        fixp,
        val,
    }
}
fn nw_arg(u: &mut U, big: usize) -> RArg {
    RArg {
        ty: RType {
            kind: RKind::Raw,
            vari: false,
            trai: false,
            scod: 0,
        },
        name: None,
        unit: None,
        fixp: None,
        val: RVal::Raw(blob(u, big)),
    }
}
fn arg_count(u: &mut U, large: bool) -> usize {
    if large {
        match u.below(23) {
            0..=19 => u.below(8),
            20 | 21 => 8 + u.below(32),
            _ => 200 + u.below(56),
        }
    } else {
        u.below(6)
    }
}

/// a well-formed message (the decoder counterpart of `gen::message::message`)
pub fn message(u: &mut U, storage: g::StorageMode, large: bool, pool: bool) -> RMsg {
    let big = if large { 65535 } else { 40 };
    let flags = u.u8();
    let ueh = u.chance(205);
    let mcnt = u.u8();
    let with_storage = match storage {
        g::StorageMode::Never => false,
        g::StorageMode::Always => true,
        g::StorageMode::Either => u.bool(),
    };
    let (sh_ecu, ecu, apid, ctid) = (id(u, pool), id(u, pool), id(u, pool), id(u, pool));
    let (secs, micros, seid, tmsp) = (u.u32(), u.u32(), u.u32(), u.u32());
    let fill = if large && u.chance(4) {
        Some(u.pick(&[
            65535u32, 65534, 65533, 65520, 32767, 32768, 32769, 256, 257, 255,
        ]))
    } else {
        None
    };
    let mtin = |u: &mut U| {
        if u.chance(192) {
            u.below(8) as u8
        } else {
            8 + u.below(8) as u8
        }
    };
    let (msin, payload) = if !ueh {
        (0u8, RPayload::NonVerbose(u.u32(), blob(u, big)))
    } else {
        match u.below(20) {
            0..=9 => {
                let t = u.pick(&[0u8, 0, 0, 1, 3, 4, 5, 6, 7]);
                let m = (t << 1) | (mtin(u) << 4) | 1;
                let n = arg_count(u, large);
                (m, RPayload::Verbose((0..n).map(|_| arg(u, big)).collect()))
            }
            10..=12 => {
                let m = (2 << 1) | (mtin(u) << 4) | 1;
                let n = arg_count(u, large);
                (
                    m,
                    RPayload::Verbose((0..n).map(|_| nw_arg(u, big)).collect()),
                )
            }
            13..=15 => {
                let m = (3 << 1) | (mtin(u) << 4);
                let service = if u.chance(170) {
                    u.below(5) as u8
                } else {
                    u.u8()
                };
                (m, RPayload::Control(service, blob(u, big)))
            }
            _ => {
                let t = u.pick(&[0u8, 0, 1, 2, 4, 5, 6, 7]);
                let m = (t << 1) | (mtin(u) << 4);
                (m, RPayload::NonVerbose(u.u32(), blob(u, big)))
            }
        }
    };
    let htyp = (flags & !UEH) | if ueh { UEH } else { 0 };
    let m = RMsg {
        storage: if with_storage {
            Some(RStorage {
                secs,
                micros,
                ecu: sh_ecu,
            })
        } else {
            None
        },
        htyp,
        mcnt,
        len: 0,
        ecu: if htyp & WEID != 0 { Some(ecu) } else { None },
        seid: if htyp & WSID != 0 { Some(seid) } else { None },
        tmsp: if htyp & WTMS != 0 { Some(tmsp) } else { None },
        ext: if ueh {
            Some(RExt {
                msin,
                noar: 0,
                apid,
                ctid,
            })
        } else {
            None
        },
        payload,
    };
    g::finish(m, fill)
}

fn suffix(u: &mut U) -> Vec<u8> {
    match u.below(13) {
        0..=2 => vec![],
        3..=6 => {
            let mut b = u.bytes(39);
            b.push(u.u8());
            b
        }
        7 | 8 => u
            .pick(&[&b"D"[..], b"DL", b"DLT", b"DLT\x01", b"DLT\x01\0\0"])
            .to_vec(),
        9..=11 => refcodec::encode(&message(u, g::StorageMode::Either, false, false)),
        _ => expand_bytes(u.u64(), u.below(3000), u.below(6) as u8),
    }
}

fn junk(u: &mut U) -> Vec<u8> {
    let tail: &[u8] = u.pick(&[&b""[..], b"D", b"DL", b"DLT", b"DLTD", b"DLTDL", b"DLTDLT"]);
    let mut j = match u.below(10) {
        0 | 1 => return vec![],
        2..=5 => {
            let n = u.below(40);
            (0..n)
                .map(|_| [b'D', b'L', b'T', 1u8, 0, 9][u.below(6)])
                .collect::<Vec<u8>>()
        }
        6..=8 => u.bytes(59),
        _ => expand_bytes(u.u64(), u.below(5000), u.below(6) as u8),
    };
    j.extend_from_slice(tail);
    c06::scrub(j)
}

fn schedule(u: &mut U) -> Schedule {
    let n = u.below(61);
    let mut steps = vec![];
    for _ in 0..n {
        let b = u.u8();
        steps.push(match b {
            0..=0x37 => Step::Stall,
            0x38..=0x3f => Step::StallRun([2u16, 5, 17, 64, 65, 130, 300, 1000][b as usize & 7]),
            0x40..=0x9f => Step::Data(1 + (b as u16 & 7)),
            0xa0..=0xef => Step::Data(1 + (b as u16 & 63)),
            _ => Step::Data(
                [1u16, 3, 4, 15, 16, 17, 19, 20, 21, 4096, 65535][(b as usize & 15) % 11],
            ),
        });
    }
    let then_chunk = match u.below(5) {
        0 | 1 => 0,
        2 | 3 => 1 + u.below(64) as u16,
        _ => u.pick(&[1u16, 2, 3, 5, 7, 19, 21, 1000]),
    };
    Schedule {
        steps,
        then_chunk,
        then_stall: u.chance(64),
    }
}

fn stream(u: &mut U, storage: bool) -> Vec<u8> {
    let st = if storage {
        g::StorageMode::Always
    } else {
        g::StorageMode::Never
    };
    let msgs = |u: &mut U, max: usize| -> Vec<u8> {
        let n = u.below(max + 1);
        let mut b = vec![];
        for _ in 0..n {
            let large = u.chance(8);
            b.extend(refcodec::encode(&message(u, st, large, false)));
        }
        b
    };
    match u.below(13) {
        12 => {
            // burst: one message again and again, a single header field changed from copy to copy
            let mut cur = message(u, st, false, true);
            if u.chance(230) && cur.htyp & WEID == 0 {
                cur.htyp |= WEID;
                cur.ecu = Some("ECU".to_string());
                cur.len += 4;
            }
            let mut b = refcodec::encode(&cur);
            for _ in 0..2 + u.below(8) {
                let r = u.u8() as usize;
                match u.below(8) {
                    0..=3 => {
                        if let Some(e) = &mut cur.ecu {
                            *e = ["ECU", "A", "ZZZ", "ECU", "APP"][r % 5].to_string();
                        }
                    }
                    4 => {
                        if let Some(x) = &mut cur.ext {
                            x.apid = ["APP", "A", "", "CTX", "A\0bc", "\0xyz"][r % 6].to_string();
                        }
                    }
                    5 => {
                        if let Some(x) = &mut cur.ext {
                            x.ctid = ["CTX", "CON", "APP", "", "CO\0N", "CTX"][r % 6].to_string();
                        }
                    }
                    6 => cur.mcnt = r as u8,
                    _ => {
                        if let Some(x) = &mut cur.ext {
                            if (x.msin >> 1) & 7 == 0 {
                                x.msin = (x.msin & 0x0f) | (((r % 8) as u8) << 4);
                            }
                        }
                    }
                }
                b.extend(refcodec::encode(&cur));
            }
            b
        }
        0..=5 => msgs(u, 7),
        6..=8 => {
            let mut b = msgs(u, 5);
            let k = (u.u16() as usize * (b.len() + 1)) >> 16;
            b.truncate(k);
            b
        }
        _ => {
            let mut out = msgs(u, 3);
            if storage {
                out.extend_from_slice(b"DLT\x01\0\0\0\0\0\0\0\0ECU\0");
            }
            let len: u16 = match u.below(7) {
                0..=2 => u.below(4) as u16,
                3 | 4 => 4 + u.below(26) as u16,
                5 => 65535,
                _ => u.u16(),
            };
            out.extend_from_slice(&[u.u8(), 1]);
            out.extend_from_slice(&len.to_be_bytes());
            out.extend(u.bytes(39));
            out.extend(msgs(u, 2));
            out
        }
    }
}

fn filter_ids(u: &mut U) -> Option<Vec<String>> {
    if u.chance(100) {
        return None;
    }
    let n = u.below(4);
    Some(
        (0..n)
            .map(|_| {
                let p = POOL[u.below(POOL.len())].to_string();
                match u.below(17) {
                    0..=11 => p,
                    12 | 13 => {
                        format!("{}{}", p, u.pick(&["0", "1", "X", " ", "\u{0}", "é", "10"]))
                    }
                    14 => p.chars().take(u.below(4)).collect(),
                    15 => {
                        if p.chars().any(|c| c.is_ascii_uppercase()) {
                            p.to_ascii_lowercase()
                        } else {
                            p.to_ascii_uppercase()
                        }
                    }
                    _ => format!(" {}", p),
                }
            })
            .collect(),
    )
}
fn filter(u: &mut U) -> c04::Filter {
    let min_log_level = match u.below(6) {
        0 | 1 => None,
        2..=4 => Some(u.below(9) as u8),
        _ => Some(u.u8()),
    };
    let (app_ids, ecu_ids, context_ids) = (filter_ids(u), filter_ids(u), filter_ids(u));
    let set_len = |l: &Option<Vec<String>>| {
        l.as_ref()
            .map(|v| v.iter().collect::<std::collections::BTreeSet<_>>().len() as i64)
            .unwrap_or(0)
    };
    let (mut a, mut c) = (
        set_len(&app_ids) + u.below(3) as i64 - 1,
        set_len(&context_ids) + u.below(3) as i64 - 1,
    );
    match u.below(9) {
        3 => a = 0,
        4 => c = -5,
        5 => {
            a = 1000;
            c = i64::MAX
        }
        6 => {
            a = i64::MIN;
            c = i64::MIN + 1
        }
        7 => {
            a = i64::MAX;
            c = i64::MIN
        }
        _ => {}
    }
    c04::Filter {
        min_log_level,
        app_ids,
        ecu_ids,
        context_ids,
        app_id_count: a,
        context_id_count: c,
    }
}

// ------------------------------------------------------------------------------------------------

/// Decode the case of property `id` from fuzzer bytes and judge it. `None` = property not served by this target.
pub fn run(id: &str, data: &[u8]) -> Option<Outcome> {
    crate::util::install_panic_hook();
    crate::oracle::install_logger();
    let mut u = U::new(data);
    let u = &mut u;
    let out = |section: &'static str, case: Json, result: CheckResult| {
        Some(Outcome {
            section,
            case,
            result,
        })
    };
    match id {
        "C01" => {
            // (mostly small messages: a 64 KiB case costs milliseconds under the sanitizer)
            let large = u.chance(24);
            let c = c01::Case {
                msg: message(u, g::StorageMode::Either, large, false),
                suffix: suffix(u),
                suffix2: suffix(u),
            };
            let r = c01::check(&c);
            out("roundtrip", json!(c), r)
        }
        "C02" => {
            let large = u.chance(24);
            let c = c02::Case::Encode(message(u, g::StorageMode::Either, large, false));
            let r = c02::check(&c);
            out("encode", json!(c), r)
        }
        "C05" => {
            let large = u.chance(20);
            let c = c05::Case {
                msg: message(u, g::StorageMode::Either, large, false),
            };
            let r = c05::check(&c);
            out("prefixes", json!(c), r)
        }
        "C06" => {
            let c = match u.below(8) {
                0 | 1 => c06::Case::Search(u.rest()),
                2..=5 => {
                    let large = u.chance(28);
                    c06::Case::Parse {
                        junk: junk(u),
                        msg: message(u, g::StorageMode::Always, large, false),
                        suffix: suffix(u),
                        filter: if u.bool() { 0 } else { 1 + u.below(7) as u8 },
                    }
                }
                _ => {
                    let n = 1 + u.below(5);
                    let msgs = (0..n)
                        .map(|_| message(u, g::StorageMode::Always, false, false))
                        .collect();
                    c06::Case::Stream {
                        msgs,
                        junks: (0..7).map(|_| junk(u)).collect(),
                        filter: if u.bool() { 0 } else { 1 + u.below(7) as u8 },
                    }
                }
            };
            let r = c06::check(&c);
            out("resync", json!(c), r)
        }
        "C07" | "C08" => {
            let storage = u.bool();
            let sched = schedule(u);
            // (reader_kind 0 = ::new allocates the 10 MiB default buffer per reader: rare here)
            let reader_kind = [1u8, 2, 4, 5, 4, 5, 1, 2, 4, 5, 4, 5, 4, 5, 3, 0][u.below(16)];
            let filter = if u.chance(192) {
                0
            } else {
                1 + u.below(7) as u8
            };
            let stream = stream(u, storage);
            let filter2 = if u.chance(40) { Some(u.below(8) as u8) } else { None };
            if id == "C07" {
                let c = c07::Case {
                    stream,
                    storage,
                    schedule: sched,
                    reader_kind,
                    filter,
                    filter2,
                    systematic: false,
                };
                let r = c07::check(&c);
                out("schedules", json!(c), r)
            } else {
                let c = c08::Case {
                    stream,
                    storage,
                    schedule: sched,
                    reader_kind,
                    filter,
                    filter2,
                    systematic: false,
                };
                let r = c08::check(&c);
                out("poll-schedules", json!(c), r)
            }
        }
        "C09" => {
            let f = filter(u);
            let msg = message(u, g::StorageMode::Either, false, true);
            let sfx = suffix(u);
            let borrowed = u.bool();
            let (force_log, own, valid_min) =
                (u.bool(), [u.bool(), u.bool(), u.bool()], u.chance(100));
            let mut c = c09::assemble(f, msg, sfx, borrowed, force_log, own, valid_min);
            c.handbuilt = u.pick(&[0u8, 0, 0, 1, 1, 2]);
            c.siblings = u.chance(96);
            let r = c09::check(&c);
            out("filter", json!(c), r)
        }
        "C10" => {
            let storage = u.bool();
            let st = if storage {
                g::StorageMode::Always
            } else {
                g::StorageMode::Never
            };
            let n = u.below(40);
            let msgs = (0..n)
                .map(|_| c10::more_logs(message(u, st, false, true)))
                .collect();
            let splits = (0..u.below(5)).map(|_| u.u16()).collect();
            let order = (0..u.below(6)).map(|_| u.u16()).collect();
            let merges = (0..8).map(|_| (u.u16(), u.u16())).collect();
            let repeat = if u.chance(50) {
                Some((u.u16(), u.u16()))
            } else {
                None
            };
            let c = c10::Case {
                storage,
                msgs,
                splits,
                order,
                merges,
                repeat,
            };
            let r = c10::check(&c);
            out("streams", json!(c), r)
        }
        "C15" => {
            let c = if u.chance(236) {
                let large = u.chance(24);
                c15::Case::Config {
                    msg: message(u, g::StorageMode::Either, large, false),
                    ts: (u.u32(), u.u32()),
                    twist: [0u8, 0, 0, 0, 0, 0, 0, 0, 1, 2, 3][u.below(11)],
                }
            } else {
                let kind = u.pick(&[
                    RKind::Bool,
                    RKind::Float(32),
                    RKind::Float(64),
                    RKind::Uint(32),
                    RKind::Str,
                ]);
                let vk = self::kind(u);
                c15::Case::Valid {
                    kind,
                    val: value_for(u, vk, 20),
                }
            };
            let r = c15::check(&c);
            out("configs", json!(c), r)
        }
        "C17" => {
            let unit = if u.bool() { 1000u64 } else { 1_000_000 };
            let max = (1u64 << 32) * unit - 1;
            let x = match u.below(3) {
                0 => u.u64() % (max + 1),
                1 => (u.u64() >> u.below(64)).min(max),
                _ => (u.u32() as u64) * unit + u.u64() % unit,
            };
            let c = c17::Case { unit, x };
            let r = c17::check(&c);
            out("random", json!(c), r)
        }
        "C18" => {
            let kind = if u.chance(200) {
                u.pick(&[
                    RKind::SintFx(32),
                    RKind::SintFx(64),
                    RKind::UintFx(32),
                    RKind::UintFx(64),
                ])
            } else {
                self::kind(u)
            };
            let q = if u.bool() {
                f32_bits(u)
            } else {
                u.pick(&[
                    1.0f32,
                    0.5,
                    0.1,
                    0.01,
                    2.0,
                    10.0,
                    1e-9,
                    1e9,
                    4294967296.0,
                    0.25,
                ])
                .to_bits()
            };
            let off = match u.below(4) {
                0 => u.u64() as i64,
                1 => u.pick(&[
                    i64::MIN,
                    i64::MAX,
                    i32::MIN as i64,
                    i32::MAX as i64,
                    -1,
                    0,
                    -200,
                    -50,
                ]),
                _ => u.below(2001) as i64 - 1000,
            };
            let vbits = u.pick(&[8u8, 16, 32, 64, 128, 32, 64]);
            let val = match u.below(8) {
                0..=2 => RVal::U(uint_value(u, vbits)),
                3..=5 => RVal::I(sint_value(u, vbits)),
                6 => RVal::U(
                    u.below(100_000) as u128
                        & if vbits >= 32 {
                            u128::MAX
                        } else {
                            (1u128 << vbits) - 1
                        },
                ),
                _ => {
                    let vk = self::kind(u);
                    value_for(u, vk, 20)
                }
            };
            let extras = if u.bool() {
                Some((
                    u.bool(),
                    if u.bool() {
                        Some(short_text(u, 8))
                    } else {
                        None
                    },
                    if u.bool() {
                        Some(short_text(u, 8))
                    } else {
                        None
                    },
                    u.bool(),
                    u.below(8) as u8,
                ))
            } else {
                None
            };
            let c = c18::Case {
                kind,
                fixp: if u.chance(230) {
                    Some((q, off, u.bool()))
                } else {
                    None
                },
                vbits,
                val,
                extras,
            };
            let r = c18::check(&c);
            out("random", json!(c), r)
        }
        "C19" => {
            let c = if u.chance(200) {
                let size = match u.below(6) {
                    0..=2 => u.below(9),
                    3 => u.below(400),
                    4 => u.pick(&[255usize, 256, 4096, 65535]),
                    _ => u.u16() as usize,
                };
                c19::Case::Field {
                    buf: u.rest(),
                    size,
                }
            } else {
                c19::Case::Ids {
                    ids: (0..16).map(|_| u.u8()).collect(),
                    big_endian: u.bool(),
                }
            };
            let r = c19::check(&c);
            out("random", json!(c), r)
        }
        _ => None,
    }
}
