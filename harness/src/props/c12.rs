//! C12 — loading any FIBEX file ends with a model or a refusal, never a hang or panic.
//! Each load runs in an evaluator child process; non-termination = CPU budget exceeded.
use super::c11::{cleanup_workdirs, write_docs};
use crate::evalserver::{Evaluator, Loaded};
use crate::gen::fibex as fx;
use crate::runner::*;
use crate::viol;
use proptest::collection::vec;
use proptest::prelude::*;
use serde::{Deserialize, Serialize};
use serde_json::{json, Value as Json};
use std::cell::RefCell;
use std::sync::atomic::{AtomicBool, AtomicU64, Ordering};

#[derive(Debug, Clone, Hash, PartialEq, Eq, Serialize, Deserialize)]
pub enum Base {
    /// 0 = tests/dlt-messages.xml, 1 = tests/robustness.xml of the repository
    Sample(u8),
    Generated {
        model: fx::Model,
        layout: fx::Layout,
    },
    /// arbitrary document bytes (inputs found by the coverage-guided tier)
    Raw(#[serde(with = "crate::util::hexser")] Vec<u8>),
}
#[derive(Debug, Clone, Hash, PartialEq, Eq, Serialize, Deserialize)]
pub enum Damage {
    None,
    Truncate(u16),
    /// exact truncation offset (used by the enumerations and by replays)
    TruncateAt(u32),
    /// every truncation offset 0..=len, enumerated inside the check
    AllTruncations,
    DeleteSubtree(u16),
    DeleteStartTag(u16),
    DeleteEndTag(u16),
    DeleteAttr(u16),
    Corrupt(Vec<(u16, u8)>),
    DupSlice(u16, u16),
    Paths(u8),
    /// move one element subtree to another tag boundary (possibly inside another element)
    MoveSubtree(u16, u16),
    /// copy one element subtree to another tag boundary
    CopySubtree(u16, u16),
    /// every SEQUENCE-NUMBER text replaced by a small number (repeats, holes)
    Renumber(u8),
    /// the value of one ID-REF / ID attribute edited by hand: a blank appended or put in front, another letter case, the
    /// last character dropped, a character appended (references that almost match a defined id)
    EditRef(u16, u8),
}
#[derive(Debug, Clone, Hash, PartialEq, Eq, Serialize, Deserialize)]
pub struct Case {
    pub base: Base,
    pub damage: Damage,
    pub which_file: u8,
    /// damages applied (in order) to the chosen file before `damage` (e.g. an attribute deleted, then every truncation)
    #[serde(default)]
    pub pre: Vec<Damage>,
}

const BUDGET_CPU_S: f64 = 10.0;
const BUDGET_SHRINK_CPU_S: f64 = 2.0;
static STALLED: AtomicBool = AtomicBool::new(false);
static LOADS: AtomicU64 = AtomicU64::new(0);
thread_local! {
    static EVAL: RefCell<Option<Evaluator>> = const { RefCell::new(None) };
}

fn load(paths: &[String]) -> Loaded {
    LOADS.fetch_add(1, Ordering::Relaxed);
    EVAL.with(|e| {
        let mut e = e.borrow_mut();
        if e.is_none() {
            *e = Evaluator::spawn().ok();
        }
        let Some(ev) = e.as_mut() else {
            return Loaded::Stalled;
        };
        let budget = if shrinking() {
            BUDGET_SHRINK_CPU_S
        } else {
            BUDGET_CPU_S
        };
        let r = ev.load(paths, budget);
        if matches!(r, Loaded::Hang { .. } | Loaded::Crash(_) | Loaded::Stalled) {
            ev.kill();
            *e = None; // respawn on the next load
        }
        r
    })
}
fn drop_evaluator() {
    EVAL.with(|e| *e.borrow_mut() = None);
}

// ------------------------------------------------------------------------------------------------
// a tiny tag scanner (positions of tags, for element-level damage and for classification)

#[derive(Debug, Clone, PartialEq)]
enum Kind {
    Open,
    Close,
    Empty,
    Other,
}
#[derive(Debug, Clone)]
struct Tag {
    start: usize,
    end: usize,
    kind: Kind,
    name: String,
}
fn scan(doc: &[u8]) -> Vec<Tag> {
    let mut tags = vec![];
    let mut i = 0;
    while i < doc.len() {
        if doc[i] != b'<' {
            i += 1;
            continue;
        }
        let rest = &doc[i..];
        let (kind, len) = if rest.starts_with(b"<!--") {
            (Kind::Other, find(rest, b"-->").map(|p| p + 3))
        } else if rest.starts_with(b"<?") {
            (Kind::Other, find(rest, b"?>").map(|p| p + 2))
        } else {
            let l = rest.iter().position(|&c| c == b'>').map(|p| p + 1);
            let k = if rest.starts_with(b"</") {
                Kind::Close
            } else if l.map_or(false, |l| l >= 2 && rest[l - 2] == b'/') {
                Kind::Empty
            } else {
                Kind::Open
            };
            (k, l)
        };
        let Some(len) = len else { break };
        let inner = &rest[if kind == Kind::Close { 2 } else { 1 }..len];
        let name_end = inner
            .iter()
            .position(|c| c.is_ascii_whitespace() || *c == b'>' || *c == b'/')
            .unwrap_or(inner.len());
        let full = String::from_utf8_lossy(&inner[..name_end]).to_string();
        let name = full.rsplit(':').next().unwrap_or("").to_string();
        tags.push(Tag {
            start: i,
            end: i + len,
            kind,
            name,
        });
        i += len;
    }
    tags
}
fn find(h: &[u8], n: &[u8]) -> Option<usize> {
    h.windows(n.len()).position(|w| w == n)
}
/// spans of the elements the loader interprets
fn element_spans(tags: &[Tag]) -> Vec<(usize, usize, String)> {
    let mut spans = vec![];
    for (i, t) in tags.iter().enumerate() {
        if t.kind == Kind::Open && matches!(t.name.as_str(), "PDU" | "FRAME" | "SIGNAL" | "CODING")
        {
            let mut depth = 0;
            for u in &tags[i..] {
                match u.kind {
                    Kind::Open => depth += 1,
                    Kind::Close => {
                        depth -= 1;
                        if depth == 0 {
                            spans.push((t.start, u.end, t.name.clone()));
                            break;
                        }
                    }
                    _ => {}
                }
            }
        }
    }
    spans
}
fn idx(frac: u16, len: usize) -> usize {
    (frac as usize * (len + 1)) >> 16
}
fn pick<T>(v: &[T], frac: u16) -> Option<&T> {
    if v.is_empty() {
        None
    } else {
        Some(&v[(frac as usize * v.len()) >> 16])
    }
}

/// apply the damage; returns (damaged bytes, positions touched)
fn apply(doc: &[u8], d: &Damage) -> (Vec<u8>, Vec<usize>) {
    let tags = scan(doc);
    match d {
        Damage::None | Damage::AllTruncations | Damage::Paths(_) => (doc.to_vec(), vec![]),
        Damage::Truncate(f) => {
            let k = idx(*f, doc.len());
            (doc[..k].to_vec(), vec![k])
        }
        Damage::TruncateAt(k) => {
            let k = (*k as usize).min(doc.len());
            (doc[..k].to_vec(), vec![k])
        }
        Damage::DeleteSubtree(f) => {
            let opens: Vec<usize> = tags
                .iter()
                .enumerate()
                .filter(|(_, t)| t.kind == Kind::Open)
                .map(|(i, _)| i)
                .collect();
            let Some(&i) = pick(&opens, *f) else {
                return (doc.to_vec(), vec![]);
            };
            let mut depth = 0;
            let mut end = tags[i].end;
            for u in &tags[i..] {
                match u.kind {
                    Kind::Open => depth += 1,
                    Kind::Close => {
                        depth -= 1;
                        if depth == 0 {
                            end = u.end;
                            break;
                        }
                    }
                    _ => {}
                }
            }
            let mut out = doc[..tags[i].start].to_vec();
            out.extend_from_slice(&doc[end..]);
            (out, vec![tags[i].start])
        }
        Damage::DeleteStartTag(f) | Damage::DeleteEndTag(f) => {
            let want = if matches!(d, Damage::DeleteStartTag(_)) {
                Kind::Open
            } else {
                Kind::Close
            };
            let sel: Vec<&Tag> = tags.iter().filter(|t| t.kind == want).collect();
            let Some(t) = pick(&sel, *f) else {
                return (doc.to_vec(), vec![]);
            };
            let mut out = doc[..t.start].to_vec();
            out.extend_from_slice(&doc[t.end..]);
            (out, vec![t.start])
        }
        Damage::DeleteAttr(f) => {
            // attributes: ` name="value"` inside open / empty tags
            let mut attrs = vec![];
            for t in tags
                .iter()
                .filter(|t| matches!(t.kind, Kind::Open | Kind::Empty))
            {
                let s = &doc[t.start..t.end];
                let mut i = 0;
                while i < s.len() {
                    if s[i] == b' ' {
                        if let Some(eq) = s[i..].iter().position(|&c| c == b'=') {
                            if s.get(i + eq + 1) == Some(&b'"') {
                                if let Some(close) = s[i + eq + 2..].iter().position(|&c| c == b'"')
                                {
                                    attrs.push((t.start + i, t.start + i + eq + 2 + close + 1));
                                    i += eq + 2 + close + 1;
                                    continue;
                                }
                            }
                        }
                    }
                    i += 1;
                }
            }
            let Some(&(a, b)) = pick(&attrs, *f) else {
                return (doc.to_vec(), vec![]);
            };
            let mut out = doc[..a].to_vec();
            out.extend_from_slice(&doc[b..]);
            (out, vec![a])
        }
        Damage::Corrupt(list) => {
            let mut out = doc.to_vec();
            let mut pos = vec![];
            for (f, b) in list {
                if !out.is_empty() {
                    let k = idx(*f, out.len() - 1);
                    out[k] = *b;
                    pos.push(k);
                }
            }
            (out, pos)
        }
        Damage::MoveSubtree(f, t) | Damage::CopySubtree(f, t) => {
            let opens: Vec<usize> = tags
                .iter()
                .enumerate()
                .filter(|(_, t)| t.kind == Kind::Open)
                .map(|(i, _)| i)
                .collect();
            let Some(&i) = pick(&opens, *f) else {
                return (doc.to_vec(), vec![]);
            };
            let mut depth = 0;
            let mut end = tags[i].end;
            for u in &tags[i..] {
                match u.kind {
                    Kind::Open => depth += 1,
                    Kind::Close => {
                        depth -= 1;
                        if depth == 0 {
                            end = u.end;
                            break;
                        }
                    }
                    _ => {}
                }
            }
            let (a, b) = (tags[i].start, end);
            // destination: the end of some tag outside the moved subtree
            let dests: Vec<usize> = tags
                .iter()
                .map(|t| t.end)
                .filter(|e| *e <= a || *e >= b)
                .collect();
            let Some(&dst) = pick(&dests, *t) else {
                return (doc.to_vec(), vec![]);
            };
            let sub = doc[a..b].to_vec();
            let mut out = vec![];
            if matches!(d, Damage::CopySubtree(..)) {
                out.extend_from_slice(&doc[..dst]);
                out.extend_from_slice(&sub);
                out.extend_from_slice(&doc[dst..]);
            } else if dst <= a {
                out.extend_from_slice(&doc[..dst]);
                out.extend_from_slice(&sub);
                out.extend_from_slice(&doc[dst..a]);
                out.extend_from_slice(&doc[b..]);
            } else {
                out.extend_from_slice(&doc[..a]);
                out.extend_from_slice(&doc[b..dst]);
                out.extend_from_slice(&sub);
                out.extend_from_slice(&doc[dst..]);
            }
            (out, vec![a, dst])
        }
        Damage::EditRef(which, how) => {
            let needle: &[u8] = if how & 8 != 0 { b" ID=\"" } else { b"ID-REF=\"" };
            let mut at = vec![];
            let mut i = 0;
            while let Some(p) = find(&doc[i..], needle) {
                at.push(i + p + needle.len());
                i += p + needle.len();
            }
            if at.is_empty() {
                return (doc.to_vec(), vec![]);
            }
            let start = at[(*which as usize * at.len()) >> 16];
            let end = doc[start..].iter().position(|&c| c == b'"').map(|e| start + e).unwrap_or(doc.len());
            let mut val = doc[start..end].to_vec();
            match how % 5 {
                0 => val.push(b' '),
                1 => val.insert(0, b' '),
                2 => val.make_ascii_lowercase(),
                3 => {
                    val.pop();
                }
                _ => val.push(b'x'),
            }
            let mut out = doc[..start].to_vec();
            out.extend_from_slice(&val);
            out.extend_from_slice(&doc[end..]);
            (out, vec![start])
        }
        Damage::Renumber(seed) => {
            let mut out = vec![];
            let mut i = 0;
            let mut n = 0u64;
            let mut touched = vec![];
            while i < doc.len() {
                let rest = &doc[i..];
                if let Some(p) = find(rest, b"SEQUENCE-NUMBER>") {
                    let start = i + p + b"SEQUENCE-NUMBER>".len();
                    // only opening tags: the text runs up to the next '<'
                    let is_open = doc[..i + p]
                        .iter()
                        .rposition(|&c| c == b'<')
                        .map_or(false, |lt| doc.get(lt + 1) != Some(&b'/'));
                    out.extend_from_slice(&doc[i..start]);
                    let end = doc[start..]
                        .iter()
                        .position(|&c| c == b'<')
                        .map(|e| start + e)
                        .unwrap_or(doc.len());
                    if is_open {
                        n += 1;
                        let v = crate::util::splitmix64((*seed as u64) << 32 | n)
                            % [2u64, 3, 4, 5][(*seed as usize) % 4];
                        out.extend_from_slice(v.to_string().as_bytes());
                        touched.push(start);
                    } else {
                        out.extend_from_slice(&doc[start..end]);
                    }
                    i = end;
                } else {
                    out.extend_from_slice(rest);
                    break;
                }
            }
            (out, touched)
        }
        Damage::DupSlice(x, y) => {
            let (i, j) = (idx(*x, doc.len()), idx(*y, doc.len()));
            let (i, j) = (i.min(j), i.max(j).min(i.min(j) + 400));
            let mut out = doc[..j].to_vec();
            out.extend_from_slice(&doc[i..j]);
            out.extend_from_slice(&doc[j..]);
            (out, vec![i, j])
        }
    }
}

fn repo_dir() -> String {
    std::env::var("DLTVERIF_REPO").unwrap_or_else(|_| "/repo".to_string())
}
pub fn sample(i: u8) -> Option<Vec<u8>> {
    let name = if i % 2 == 0 {
        "tests/dlt-messages.xml"
    } else {
        "tests/robustness.xml"
    };
    std::fs::read(format!("{}/{}", repo_dir(), name)).ok()
}

fn judge(r: Loaded, what: &str, ctx: &dyn Fn() -> String) -> Result<&'static str, Violation> {
    match r {
        Loaded::Some => Ok("verdict:model"),
        Loaded::None => Ok("verdict:refused"),
        Loaded::Panic { sig, text } => Err(viol!(sig, "loading panicked ({}): {}; {}", what, text, ctx())),
        Loaded::Crash(why) => Err(viol!(format!("fibex-crash:{}", what), "loading killed the process ({}): {}; {}", what, why, ctx())),
        Loaded::Hang { cpu_s } => Err(viol!(format!("fibex-hang:{}", what), "loading does not terminate ({}): {:.1} s of CPU consumed without an answer (a normal load takes < 1 ms); {}", what, cpu_s, ctx())),
        Loaded::Stalled => {
            STALLED.store(true, Ordering::Relaxed);
            Ok("evaluator-stalled")
        }
    }
}

/// name of the interpreted element the position lies in ("-" = outside)
fn where_is(spans: &[(usize, usize, String)], pos: usize) -> String {
    spans
        .iter()
        .find(|s| s.0 < pos && pos < s.1)
        .map(|s| s.2.clone())
        .unwrap_or_else(|| "-".to_string())
}

pub fn check(c: &Case) -> CheckResult {
    let mut pass = Pass::new(false);
    // special path sets
    if let Damage::Paths(k) = &c.damage {
        let dir = super::c11::workdir();
        let valid = sample(1).map(|s| write_docs(&[s], "p")[0].clone());
        let empty_file = write_docs(&[vec![]], "e")[0].clone();
        let ws_file = write_docs(&[b" \n\t ".to_vec()], "w")[0].clone();
        let lt_file = write_docs(&[b"<".to_vec()], "l")[0].clone();
        let missing = dir.join("does-not-exist.xml").to_string_lossy().to_string();
        let parent = dir.join("..").to_string_lossy().to_string();
        let paths: Vec<String> = match k % 16 {
            // several paths, one of them degenerate (no file name / empty / directory / missing)
            9 => valid.into_iter().chain([String::new()]).collect(),
            10 => [String::new()].into_iter().chain(valid).collect(),
            11 => [parent].into_iter().chain(valid).collect(),
            12 => valid.into_iter().chain(["/".to_string()]).collect(),
            13 => vec![String::new(), missing],
            14 => vec!["..".to_string(), ".".to_string()],
            15 => valid.clone().into_iter().chain(valid).collect(),
            0 => vec![missing],
            1 => vec![String::new()],
            2 => vec![dir.to_string_lossy().to_string()],
            3 => vec![empty_file],
            4 => vec![],
            5 => valid.into_iter().chain([missing]).collect(),
            6 => vec![ws_file],
            7 => vec![lt_file],
            _ => valid.into_iter().chain([empty_file]).collect(),
        };
        let cls = judge(load(&paths), "special-paths", &|| {
            format!("paths={:?}", paths)
        })?;
        pass.classes.push(cls);
        pass.classes.push("special-paths");
        pass.nontrivial = true;
        return Ok(pass);
    }
    let docs: Vec<Vec<u8>> = match &c.base {
        Base::Sample(i) => match sample(*i) {
            Some(d) => vec![d],
            None => return Ok(pass.class("sample-file-missing")),
        },
        Base::Generated { model, layout } => fx::render(model, layout)
            .into_iter()
            .map(|s| s.into_bytes())
            .collect(),
        Base::Raw(b) => vec![b.clone()],
    };
    let mut docs = docs;
    let target = c.which_file as usize % docs.len();
    // earlier damages (the truncations below then start where the first of them touched the file)
    let mut first_touched: Option<usize> = None;
    for d in &c.pre {
        let (bytes, touched) = apply(&docs[target], d);
        if let Some(t) = touched.iter().min() {
            first_touched = Some(first_touched.map_or(*t, |f| f.min(*t)));
        }
        docs[target] = bytes;
    }
    let docs = docs;
    let base_doc = &docs[target];
    let spans = element_spans(&scan(base_doc));
    let label = match &c.base {
        Base::Sample(_) => "sample",
        Base::Generated { .. } => "generated",
        Base::Raw(_) => "raw",
    };
    if c.damage == Damage::AllTruncations {
        let mut damaged = docs.clone();
        // (prefixes that end before the first earlier damage are prefixes of the undamaged document, covered elsewhere)
        let from = if c.pre.is_empty() {
            0
        } else {
            first_touched
                .unwrap_or(0)
                .saturating_sub(2)
                .min(base_doc.len())
        };
        if !c.pre.is_empty() {
            pass.classes.push("damaged-then-all-truncations");
        }
        for k in from..=base_doc.len() {
            damaged[target] = base_doc[..k].to_vec();
            let paths = write_docs(&damaged, "t");
            let place = where_is(&spans, k);
            let cls = judge(
                load(&paths),
                &format!("truncated-inside-{}", place),
                &|| {
                    format!(
                        "{} document ({} bytes, file {} of {}) truncated at offset {}",
                        label,
                        base_doc.len(),
                        target,
                        docs.len(),
                        k
                    )
                },
            )?;
            pass.classes.push(cls);
            pass.subcases += 1;
        }
        pass.nontrivial = !spans.is_empty();
        pass.classes.push("all-truncations");
    } else {
        let (bytes, touched) = apply(base_doc, &c.damage);
        let mut damaged = docs.clone();
        let changed = bytes != *base_doc;
        damaged[target] = bytes;
        let paths = write_docs(&damaged, "d");
        let place = touched
            .iter()
            .map(|p| where_is(&spans, *p))
            .find(|p| p != "-")
            .unwrap_or_else(|| "-".to_string());
        let kind = match &c.damage {
            Damage::None => "intact",
            Damage::Truncate(_) | Damage::TruncateAt(_) => "truncated",
            Damage::DeleteSubtree(_) => "subtree-deleted",
            Damage::DeleteStartTag(_) => "start-tag-deleted",
            Damage::DeleteEndTag(_) => "end-tag-deleted",
            Damage::DeleteAttr(_) => "attribute-deleted",
            Damage::Corrupt(_) => "bytes-corrupted",
            Damage::DupSlice(..) => "slice-duplicated",
            Damage::MoveSubtree(..) | Damage::CopySubtree(..) => "subtree-moved",
            Damage::Renumber(_) => "renumbered",
            Damage::EditRef(..) => "reference-edited",
            _ => "other",
        };
        let cls = judge(load(&paths), &format!("{}-inside-{}", kind, place), &|| {
            format!(
                "{} document (file {} of {}), damage {:?}, damaged file:\n{}",
                label,
                target,
                docs.len(),
                c.damage,
                String::from_utf8_lossy(&damaged[target][..damaged[target].len().min(3000)])
            )
        })?;
        pass.classes.push(cls);
        pass.classes.push(match kind {
            "intact" => "damage:none",
            "truncated" => "damage:truncated",
            "subtree-deleted" => "damage:subtree-deleted",
            "start-tag-deleted" => "damage:start-tag-deleted",
            "end-tag-deleted" => "damage:end-tag-deleted",
            "attribute-deleted" => "damage:attribute-deleted",
            "bytes-corrupted" => "damage:bytes-corrupted",
            "subtree-moved" => "damage:subtree-moved-or-copied",
            "renumbered" => "damage:sequence-numbers-repeated",
            _ => "damage:slice-duplicated",
        });
        pass.nontrivial = changed && place != "-";
    }
    if docs.len() > 1 {
        pass.classes.push("multi-file-set");
    }
    pass.classes.push(match label {
        "sample" => "base:sample",
        "raw" => "base:raw",
        _ => "base:generated",
    });
    pass.classes.sort();
    pass.classes.dedup();
    Ok(pass)
}

fn damage() -> BoxedStrategy<Damage> {
    let byte = prop_oneof![
        prop::sample::select(vec![
            b'<', b'>', b'&', b'"', b'\'', b'/', 0u8, 0xFF, 0xC3, b'=', b' ', b'-', b'!', b'?',
            b';'
        ]),
        any::<u8>()
    ];
    prop_oneof![
        1 => Just(Damage::None),
        6 => any::<u16>().prop_map(Damage::Truncate),
        5 => any::<u16>().prop_map(Damage::DeleteSubtree),
        5 => any::<u16>().prop_map(Damage::DeleteStartTag),
        5 => any::<u16>().prop_map(Damage::DeleteEndTag),
        5 => any::<u16>().prop_map(Damage::DeleteAttr),
        6 => vec((any::<u16>(), byte), 1..5).prop_map(Damage::Corrupt),
        2 => any::<(u16, u16)>().prop_map(|(a, b)| Damage::DupSlice(a, b)),
        4 => any::<(u16, u16)>().prop_map(|(a, b)| Damage::MoveSubtree(a, b)),
        3 => any::<(u16, u16)>().prop_map(|(a, b)| Damage::CopySubtree(a, b)),
        4 => any::<u8>().prop_map(Damage::Renumber),
        4 => any::<(u16, u8)>().prop_map(|(a, b)| Damage::EditRef(a, b)),
        1 => (0u8..16).prop_map(Damage::Paths),
    ]
    .boxed()
}
fn element_damage() -> BoxedStrategy<Damage> {
    let byte = prop::sample::select(vec![b'<', b'>', b'&', b'"', b'/', 0u8, 0xFF, b'=', b' ']);
    prop_oneof![
        3 => any::<u16>().prop_map(Damage::DeleteSubtree),
        4 => any::<u16>().prop_map(Damage::DeleteStartTag),
        4 => any::<u16>().prop_map(Damage::DeleteEndTag),
        6 => any::<u16>().prop_map(Damage::DeleteAttr),
        2 => vec((any::<u16>(), byte), 1..3).prop_map(Damage::Corrupt),
        3 => any::<(u16, u16)>().prop_map(|(a, b)| Damage::MoveSubtree(a, b)),
        2 => any::<(u16, u16)>().prop_map(|(a, b)| Damage::CopySubtree(a, b)),
        2 => any::<u8>().prop_map(Damage::Renumber),
        3 => any::<(u16, u8)>().prop_map(|(a, b)| Damage::EditRef(a, b)),
    ]
    .boxed()
}
fn damage_no_paths() -> BoxedStrategy<Damage> {
    damage()
        .prop_map(|d| {
            if matches!(d, Damage::Paths(_)) {
                Damage::None
            } else {
                d
            }
        })
        .boxed()
}

/// markup tokens for the bounded-exhaustive "token documents": every element and attribute the loader interprets, in
/// complete and defective forms (missing ID / ID-REF), text, and stray markup characters
const TOKENS: [&[u8]; 33] = [
    b"<fx:PDU ID=\"P\">",
    b"<fx:PDU>",
    b"</fx:PDU>",
    b"<fx:FRAME ID=\"F\">",
    b"<fx:FRAME>",
    b"</fx:FRAME>",
    b"<ho:SHORT-NAME>",
    b"</ho:SHORT-NAME>",
    b"x",
    b"7",
    b"<fx:BYTE-LENGTH>",
    b"</fx:BYTE-LENGTH>",
    b"<fx:SIGNAL-INSTANCE ID=\"S\">",
    b"</fx:SIGNAL-INSTANCE>",
    b"<fx:SEQUENCE-NUMBER>",
    b"<fx:SIGNAL-REF ID-REF=\"S_BOOL\"/>",
    b"<fx:SIGNAL-REF/>",
    b"<fx:PDU-INSTANCE ID=\"I\">",
    b"</fx:PDU-INSTANCE>",
    b"<fx:PDU-REF ID-REF=\"P\"/>",
    b"<fx:MANUFACTURER-EXTENSION>",
    b"</fx:MANUFACTURER-EXTENSION>",
    b"<APPLICATION_ID>",
    b"<fx:SIGNAL ID=\"S\">",
    b"</fx:SIGNAL>",
    b"<fx:CODING-REF ID-REF=\"C\"/>",
    b"<fx:CODING ID=\"C\"><ho:CODED-TYPE ho:BASE-DATA-TYPE=\"A_UINT8\"/>",
    b"<ho:DESC>",
    b"<",
    b"&",
    // comments: a complete one and the two forms shorter than their delimiters (the parser library accepts those only
    // when its event buffer is not empty, and then panics: fix commit bb719f7)
    b"<!--c-->",
    b"<!-->",
    b"<!--->",
];
fn token(i: usize) -> &'static [u8] {
    if i < TOKENS.len() {
        TOKENS[i]
    } else {
        b""
    }
}

fn base() -> BoxedStrategy<Base> {
    prop_oneof![
        2 => (0u8..2).prop_map(Base::Sample),
        5 => (fx::model(), fx::layout()).prop_map(|(model, layout)| Base::Generated { model, layout }),
    ]
    .boxed()
}

pub fn run(run: &Run) {
    run.rule(
        "base documents = the repository's two sample files and generated FIBEX document sets (C11 generator, ids also longer than 4 bytes and \
         multi-byte); token documents = EVERY sequence of at most 4 (thorough: 5) tokens from 30 markup tokens (each interpreted element in complete \
         and defective form, text, stray '<' and '&'); combined damage = up to three damages applied in sequence, and 'one or two element-level \
         damages, then EVERY truncation offset from the first damage on'; damage = EVERY truncation offset of the \
         base document (sample files: enumerated section; generated documents: enumerated inside the case, counted in sub_evaluations), deletion of one \
         element subtree / start tag / end tag / attribute, 1..4 corrupted bytes (markup characters, NUL, invalid UTF-8), duplicated slices, one damaged \
         member of a multi-file set, and special path sets (nonexistent, empty string, directory, empty file, whitespace, no paths, several paths with a degenerate one among them); element subtrees moved or copied to another place (also into another element); all sequence numbers replaced by small repeating ones; every load runs in \
         an evaluator child process and must answer 'model' or 'refused'; violation = panic, child death, or more than 10 s of CPU for one load (2 s \
         while shrinking, re-confirmed with 10 s); non-trivial = damaged document differs from its base and the damage lies inside a PDU / FRAME / \
         SIGNAL / CODING element (all-truncation cases: the document has such an element); distinct by the whole case",
    );
    run.assume("'promptly' = 10 s of CPU time for a document of a few KiB (a normal load takes well under 1 ms); judged by consumed CPU time of the child, never by wall-clock time; a child that neither answers nor consumes CPU for 120 s makes the run inconclusive (exit 2)");
    run.shrink_iters.store(60, Ordering::Relaxed);
    run.regressions(&replay);
    // all truncation offsets of the two sample files
    for s in 0..2u8 {
        if let Some(doc) = sample(s) {
            let len = doc.len() as u64 + 1;
            let blocks = len.div_ceil(64);
            run.enumerate(if s == 0 { "sample-truncations:dlt-messages.xml" } else { "sample-truncations:robustness.xml" }, blocks, true, |b| {
                let mut rep = BlockReport::default();
                for k in b * 64..((b + 1) * 64).min(len) {
                    let case = Case { base: Base::Sample(s), damage: Damage::TruncateAt(k as u32), which_file: 0, pre: vec![] };
                    rep.evaluations += 1;
                    match check(&case) {
                        Ok(p) => rep.nontrivial += p.nontrivial as u64,
                        Err(v) => {
                            if rep.violation.is_none() {
                                rep.violation = Some((json!(case), v));
                            }
                            break; // one finding per block is enough; every further hang costs the CPU budget
                        }
                    }
                }
                if b == 20 {
                    rep.sample = Some(json!({"base": format!("Sample({})", s), "damage": format!("TruncateAt({}..{})", b * 64, (b + 1) * 64)}));
                }
                rep
            });
        } else {
            run.inconclusive(format!(
                "sample file {} of the repository is not readable",
                s
            ));
        }
    }
    run.random(
        "generated-all-truncations",
        run.cases(160, 3_000),
        0.5,
        || {
            (fx::model_small(), fx::layout(), any::<u8>()).prop_map(
                |(model, layout, which_file)| Case {
                    base: Base::Generated { model, layout },
                    damage: Damage::AllTruncations,
                    which_file,
                    pre: vec![],
                },
            )
        },
        check,
    );
    // one or two element-level damages, then every truncation offset from the first damage on
    run.random(
        "damaged-then-all-truncations",
        run.cases(240, 5_000),
        0.3,
        || {
            let small_base = prop_oneof![1 => Just(Base::Sample(1)), 6 => (fx::model_small(), fx::layout()).prop_map(|(model, layout)| Base::Generated { model, layout })];
            (small_base, vec(element_damage(), 1..3), any::<u8>()).prop_map(|(base, pre, which_file)| Case { base, damage: Damage::AllTruncations, which_file, pre })
        },
        check,
    );
    // two or three damages combined
    run.random(
        "combined-damage",
        run.cases(10_000, 200_000),
        0.3,
        || {
            (
                base(),
                vec(damage_no_paths(), 1..3),
                damage_no_paths(),
                any::<u8>(),
            )
                .prop_map(|(base, pre, damage, which_file)| Case {
                    base,
                    damage,
                    which_file,
                    pre,
                })
        },
        check,
    );
    // every document that is a sequence of at most TOKENS_LEN markup tokens (bounded-exhaustive)
    let tlen = run.tier.pick(4, 5) as u32;
    let nt = TOKENS.len() as u64 + 1;
    run.enumerate("token-documents", nt * nt, true, |b| {
        let mut rep = BlockReport::default();
        let (t0, t1) = ((b / nt) as usize, (b % nt) as usize);
        let rest = nt.pow(tlen - 2);
        for r in 0..rest {
            let mut doc = token(t0).to_vec();
            doc.extend_from_slice(token(t1));
            let mut x = r;
            for _ in 0..tlen - 2 {
                doc.extend_from_slice(token((x % nt) as usize));
                x /= nt;
            }
            let case = Case {
                base: Base::Raw(doc),
                damage: Damage::None,
                which_file: 0,
                pre: vec![],
            };
            rep.evaluations += 1;
            match check(&case) {
                Ok(_) => rep.nontrivial += 1,
                Err(v) => {
                    rep.violation = Some((json!(case), v));
                    break;
                }
            }
            if b == 40 && r == 77 {
                rep.sample = Some(json!(case));
            }
        }
        rep
    });
    run.random(
        "damage",
        run.cases(30_000, 600_000),
        0.3,
        || {
            (base(), damage(), any::<u8>()).prop_map(|(base, damage, which_file)| Case {
                base,
                damage,
                which_file,
                pre: vec![],
            })
        },
        check,
    );
    run.extra(
        "loads_in_child_processes",
        json!(LOADS.load(Ordering::Relaxed)),
    );
    if STALLED.load(Ordering::Relaxed) {
        run.inconclusive(
            "an evaluator child stalled without consuming CPU (machinery problem, no verdict)"
                .to_string(),
        );
    }
    drop_evaluator();
    cleanup_workdirs();
}

pub fn replay(section: &str, case: &Json) -> Option<CheckResult> {
    if section.starts_with("fuzz-") {
        return super::fuzz_replay("C12", section, case);
    }
    let r = case_from::<Case>(case).map(|c| check(&c));
    drop_evaluator();
    cleanup_workdirs();
    r
}
