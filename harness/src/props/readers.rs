//! Shared machinery for C07 / C08: scheduled sources (the harness owns fragmentation, interruption
//! and poll schedules), drivers for the blocking and the async reader, the slice-cutting reference.
use crate::gen::{bytes as gb, message as g};
use crate::model::*;
use crate::oracle::filter_by_index;
use crate::refcodec;
use crate::util::guard;
use dlt_core::filtering::ProcessedDltFilterConfig;
use dlt_core::parse::{dlt_message, DltParseError, ParsedMessage};
use dlt_core::read::DltMessageReader;
use dlt_core::stream::DltStreamReader;
use proptest::collection::vec;
use proptest::prelude::*;
use serde::{Deserialize, Serialize};
use std::cell::RefCell;
use std::future::Future;
use std::io::{self, Read};
use std::pin::Pin;
use std::rc::Rc;
use std::task::{Context, Poll};

#[derive(Debug, Clone, Copy, Hash, PartialEq, Eq, Serialize, Deserialize)]
pub enum Step {
    /// deliver at most k (>= 1) bytes
    Data(u16),
    /// blocking: ErrorKind::Interrupted; async: Poll::Pending (after waking the waker)
    Stall,
    /// k stalls in a row (a signal storm / a source that stays pending for many polls)
    StallRun(u16),
}

#[derive(Debug, Clone, Hash, PartialEq, Eq, Serialize, Deserialize)]
pub struct Schedule {
    pub steps: Vec<Step>,
    /// chunk size once the list is exhausted (0 = whatever the caller asks for)
    pub then_chunk: u16,
    /// once the list is exhausted: a stall before every read
    pub then_stall: bool,
}
impl Schedule {
    pub fn always_ready() -> Self {
        Schedule {
            steps: vec![],
            then_chunk: 0,
            then_stall: false,
        }
    }
    pub fn constant(chunk: u16, stall: bool) -> Self {
        Schedule {
            steps: vec![],
            then_chunk: chunk,
            then_stall: stall,
        }
    }
}

/// state shared between a source and the check (positions at which source reads ended, stalls seen)
#[derive(Default, Debug)]
pub struct Trace {
    pub boundaries: Vec<usize>,
    pub stalls: usize,
}

pub struct Source {
    data: Vec<u8>,
    pos: usize,
    sched: Schedule,
    next: usize,
    stalled_last: bool,
    run_left: u32,
    trace: Rc<RefCell<Trace>>,
}
impl Source {
    pub fn new(data: &[u8], sched: &Schedule, trace: Rc<RefCell<Trace>>) -> Self {
        Source {
            data: data.to_vec(),
            pos: 0,
            sched: sched.clone(),
            next: 0,
            stalled_last: false,
            run_left: 0,
            trace,
        }
    }
    /// `None` = stall now, `Some(n)` = deliver n bytes into a buffer of `want` bytes
    fn step(&mut self, want: usize) -> Option<usize> {
        let remaining = self.data.len() - self.pos;
        if self.run_left > 0 {
            self.run_left -= 1;
            self.trace.borrow_mut().stalls += 1;
            return None;
        }
        let k = if self.next < self.sched.steps.len() {
            let s = self.sched.steps[self.next];
            self.next += 1;
            match s {
                Step::Stall => {
                    self.trace.borrow_mut().stalls += 1;
                    return None;
                }
                Step::StallRun(n) => {
                    self.run_left = (n as u32).saturating_sub(1);
                    self.trace.borrow_mut().stalls += 1;
                    return None;
                }
                Step::Data(k) => k.max(1) as usize,
            }
        } else {
            if self.sched.then_stall && !self.stalled_last {
                self.stalled_last = true;
                self.trace.borrow_mut().stalls += 1;
                return None;
            }
            self.stalled_last = false;
            if self.sched.then_chunk == 0 {
                usize::MAX
            } else {
                self.sched.then_chunk as usize
            }
        };
        Some(k.min(want).min(remaining))
    }
    fn deliver(&mut self, buf: &mut [u8], n: usize) {
        buf[..n].copy_from_slice(&self.data[self.pos..self.pos + n]);
        self.pos += n;
        if n > 0 {
            self.trace.borrow_mut().boundaries.push(self.pos);
        }
    }
}
impl Read for Source {
    fn read(&mut self, buf: &mut [u8]) -> io::Result<usize> {
        match self.step(buf.len()) {
            None => Err(io::Error::new(io::ErrorKind::Interrupted, "interrupted")),
            Some(n) => {
                self.deliver(buf, n);
                Ok(n)
            }
        }
    }
}
impl futures::io::AsyncRead for Source {
    fn poll_read(
        mut self: Pin<&mut Self>,
        cx: &mut Context<'_>,
        buf: &mut [u8],
    ) -> Poll<io::Result<usize>> {
        match self.step(buf.len()) {
            None => {
                cx.waker().wake_by_ref();
                Poll::Pending
            }
            Some(n) => {
                self.deliver(buf, n);
                Poll::Ready(Ok(n))
            }
        }
    }
}

#[derive(Debug, Clone, PartialEq)]
pub enum Outcome {
    Item(dlt_core::dlt::Message),
    Filtered(usize),
    Invalid,
    Slice(Vec<u8>),
    Err(&'static str),
    End,
    Panic(String),
    /// the driver gave up: more calls than the stream can justify, or the future never completed
    Runaway(String),
}
impl Outcome {
    pub fn same(&self, other: &Outcome) -> bool {
        match (self, other) {
            (Outcome::Item(a), Outcome::Item(b)) => msg_eq_bits(a, b).is_ok(),
            (a, b) => a == b,
        }
    }
    pub fn short(&self) -> String {
        match self {
            Outcome::Item(m) => format!("Item({})", short_dbg(m)),
            Outcome::Slice(s) => format!("Slice({} bytes)", s.len()),
            o => format!("{:?}", o),
        }
    }
}
pub fn err_class(e: &DltParseError) -> &'static str {
    match e {
        DltParseError::IncompleteParse { .. } => "incomplete",
        DltParseError::ParsingHickup(_) => "hickup",
        DltParseError::Unrecoverable(_) => "unrecoverable",
    }
}
fn of_parsed(r: Result<Option<ParsedMessage>, DltParseError>) -> Outcome {
    match r {
        Ok(Some(ParsedMessage::Item(m))) => Outcome::Item(m),
        Ok(Some(ParsedMessage::FilteredOut(n))) => Outcome::Filtered(n),
        Ok(Some(ParsedMessage::Invalid)) => Outcome::Invalid,
        Ok(None) => Outcome::End,
        Err(e) => Outcome::Err(err_class(&e)),
    }
}
fn of_slice(r: Result<&[u8], DltParseError>) -> Outcome {
    match r {
        Ok(s) if s.is_empty() => Outcome::End,
        Ok(s) => Outcome::Slice(s.to_vec()),
        Err(e) => Outcome::Err(err_class(&e)),
    }
}

/// which entry point call number `i` uses: bit i (mod 64) of `api` set = next_message_slice, clear = read_message
pub const API_MESSAGE: u64 = 0;
pub const API_SLICE: u64 = u64::MAX;
pub fn use_slice(api: u64, i: usize) -> bool {
    (api >> (i % 64)) & 1 == 1
}

/// how the reader under test is constructed: (buffer capacity, maximal message length), `None` = `::new`
pub fn capacities(kind: u8, stream: &[u8], storage: bool) -> Option<(usize, usize)> {
    match kind % 6 {
        0 => None, // ::new
        1 => Some((65551, 65551)),
        2 => Some((70000, 65551)),
        3 => Some((1 << 20, 70000)),
        // "tight" readers: the scratch buffer is exactly as long as the longest message the stream declares and the
        // BufReader is (almost) as small, so that its buffer wraps inside headers and payloads all the time.  Legal
        // use of with_capacity needs max_len >= every declared message (the reader debug_asserts it), so streams
        // with a hostile / over-long declared length fall back to the documented capacity.
        k => {
            let s = if storage { 16 } else { 0 };
            let (mut pos, mut max) = (0usize, s + 4);
            loop {
                if stream.len() - pos < s + 4 {
                    break;
                }
                let len = u16::from_be_bytes([stream[pos + s + 2], stream[pos + s + 3]]) as usize;
                if len < 4 || stream.len() - pos < s + len {
                    return Some((65551, 65551));
                }
                max = max.max(s + len);
                pos += s + len;
            }
            Some((max + if k == 4 { 0 } else { 7 }, max))
        }
    }
}

/// Call the blocking reader until end of stream (bounded), collecting the outcome of every call.
pub fn drive_blocking(
    stream: &[u8],
    storage: bool,
    sched: &Schedule,
    reader_kind: u8,
    filter: Option<&ProcessedDltFilterConfig>,
    api: u64,
) -> (Vec<Outcome>, Trace) {
    let trace = Rc::new(RefCell::new(Trace::default()));
    let src = Source::new(stream, sched, trace.clone());
    let mut out = vec![];
    let bound = stream.len() / 4 + 3;
    let res =
        guard(|| {
            let mut reader = match capacities(reader_kind, stream, storage) {
                None => DltMessageReader::new(src, storage),
                Some((b, m)) => DltMessageReader::with_capacity(b, m, src, storage),
            };
            let mut outs = vec![];
            let mut live = LiveFilter(None);
            for i in 0..bound + 1 {
                let slices = use_slice(api, i);
                let o = match guard(|| {
                    if slices {
                        of_slice(reader.next_message_slice())
                    } else {
                        of_parsed(dlt_core::read::read_message(&mut reader, live.set(filter_at(i, filter))))
                    }
                }) {
                    Ok(o) => o,
                    Err(p) => Outcome::Panic(p.describe()),
                };
                let stop = matches!(o, Outcome::End | Outcome::Panic(_));
                let ended = matches!(o, Outcome::End);
                outs.push(o);
                if ended {
                    // the stream is exhausted: further calls must neither panic nor produce a message
                    for j in 0..2 {
                        let extra = match guard(|| {
                            if use_slice(api, i + 1 + j) {
                                of_slice(reader.next_message_slice())
                            } else {
                                of_parsed(dlt_core::read::read_message(&mut reader, live.set(filter_at(i + 1 + j, filter))))
                            }
                        }) {
                            Ok(o) => o,
                            Err(p) => Outcome::Panic(p.describe()),
                        };
                        match extra {
                            Outcome::Panic(p) => outs
                                .push(Outcome::Panic(format!("call after end of stream: {}", p))),
                            Outcome::Item(_) | Outcome::Slice(_) | Outcome::Filtered(_) => outs
                                .push(Outcome::Runaway(
                                    "a message was delivered after end of stream".to_string(),
                                )),
                            _ => {}
                        }
                    }
                }
                if stop {
                    return outs;
                }
            }
            outs.push(Outcome::Runaway(format!(
                "more than {} calls on a {}-byte stream",
                bound,
                stream.len()
            )));
            outs
        });
    match res {
        Ok(o) => out.extend(o),
        Err(p) => out.push(Outcome::Panic(p.describe())),
    }
    let t = std::mem::take(&mut *trace.borrow_mut());
    (out, t)
}


/// counts the wake-ups a future arranges (the mock source wakes at once when it stalls)
struct CountWaker(std::sync::atomic::AtomicUsize);
impl std::task::Wake for CountWaker {
    fn wake(self: std::sync::Arc<Self>) {
        self.0.fetch_add(1, std::sync::atomic::Ordering::Relaxed);
    }
    fn wake_by_ref(self: &std::sync::Arc<Self>) {
        self.0.fetch_add(1, std::sync::atomic::Ordering::Relaxed);
    }
}

/// poll a future to completion with a poll budget (`Err` = the budget ran out, or the future returned `Pending`
/// without having arranged a wake-up: an executor that polls again only when woken would never come back to it)
fn block_on_budget<F: Future>(fut: F, budget: usize) -> Result<F::Output, String> {
    let counter = std::sync::Arc::new(CountWaker(std::sync::atomic::AtomicUsize::new(0)));
    let waker = std::task::Waker::from(counter.clone());
    let mut cx = Context::from_waker(&waker);
    let mut fut = Box::pin(fut);
    for k in 0..budget {
        let before = counter.0.load(std::sync::atomic::Ordering::Relaxed);
        if let Poll::Ready(v) = fut.as_mut().poll(&mut cx) {
            return Ok(v);
        }
        if counter.0.load(std::sync::atomic::Ordering::Relaxed) == before {
            return Err(format!("poll #{} returned Pending although nothing woke (or will wake) the task: lost wake-up", k));
        }
    }
    Err(format!("future still pending after {} polls", budget))
}

/// Same protocol for the async reader, on a hand-rolled executor.
pub fn drive_async(
    stream: &[u8],
    storage: bool,
    sched: &Schedule,
    reader_kind: u8,
    filter: Option<&ProcessedDltFilterConfig>,
    api: u64,
) -> (Vec<Outcome>, Trace) {
    let trace = Rc::new(RefCell::new(Trace::default()));
    let src = Source::new(stream, sched, trace.clone());
    let mut out = vec![];
    let bound = stream.len() / 4 + 3;
    // every poll either delivers >= 1 byte, reaches end of input, or is one of the scheduled stalls
    let runs: usize = sched
        .steps
        .iter()
        .map(|s| {
            if let Step::StallRun(n) = s {
                *n as usize
            } else {
                0
            }
        })
        .sum();
    let budget = 2 * sched.steps.len() + runs + 2 * stream.len() + 64;
    let res = guard(|| {
        let mut reader = match capacities(reader_kind, stream, storage) {
            None => DltStreamReader::new(src, storage),
            Some((b, m)) => DltStreamReader::with_capacity(b, m, src, storage),
        };
        let mut outs = vec![];
        let mut live = LiveFilter(None);
        for i in 0..bound + 1 {
            let slices = use_slice(api, i);
            let o = match guard(|| {
                if slices {
                    block_on_budget(reader.next_message_slice(), budget).map(of_slice)
                } else {
                    block_on_budget(dlt_core::stream::read_message(&mut reader, live.set(filter_at(i, filter))), budget)
                        .map(of_parsed)
                }
            }) {
                Ok(Ok(o)) => o,
                Ok(Err(why)) => Outcome::Runaway(why),
                Err(p) => Outcome::Panic(p.describe()),
            };
            let stop = matches!(o, Outcome::End | Outcome::Panic(_) | Outcome::Runaway(_));
            outs.push(o);
            if stop {
                return outs;
            }
        }
        outs.push(Outcome::Runaway(format!(
            "more than {} calls on a {}-byte stream",
            bound,
            stream.len()
        )));
        outs
    });
    match res {
        Ok(o) => out.extend(o),
        Err(p) => out.push(Outcome::Panic(p.describe())),
    }
    let t = std::mem::take(&mut *trace.borrow_mut());
    (out, t)
}

/// What the statement of C07 prescribes, as a pure function of the bytes.
pub struct Reference {
    pub outcomes: Vec<Outcome>,
    /// start offsets of the pieces
    pub starts: Vec<usize>,
    /// the stream declares a length < 4 at this piece index: nothing is prescribed from there on
    pub hostile_at: Option<usize>,
    pub truncated_in_header: bool,
    pub truncated_in_body: bool,
}
pub fn reference(
    stream: &[u8],
    storage: bool,
    filter: Option<&ProcessedDltFilterConfig>,
    api: u64,
) -> Reference {
    let s = if storage { 16 } else { 0 };
    let mut r = Reference {
        outcomes: vec![],
        starts: vec![],
        hostile_at: None,
        truncated_in_header: false,
        truncated_in_body: false,
    };
    let mut pos = 0;
    loop {
        let rem = stream.len() - pos;
        if rem < s + 4 {
            r.truncated_in_header = rem > 0;
            r.outcomes.push(Outcome::End);
            return r;
        }
        let len = u16::from_be_bytes([stream[pos + s + 2], stream[pos + s + 3]]) as usize;
        r.starts.push(pos);
        if len < 4 {
            r.hostile_at = Some(r.outcomes.len());
            return r;
        }
        let total = s + len;
        if rem < total {
            r.truncated_in_body = true;
            r.outcomes.push(Outcome::Err("unrecoverable"));
            r.outcomes.push(Outcome::End);
            return r;
        }
        let piece = &stream[pos..pos + total];
        if use_slice(api, r.outcomes.len()) {
            r.outcomes.push(Outcome::Slice(piece.to_vec()));
        } else {
            r.outcomes.push(
                match guard(|| dlt_message(piece, filter_at(r.outcomes.len(), filter).as_ref(), storage).map(|(_, pm)| pm)) {
                    Ok(x) => of_parsed(x.map(Some)),
                    Err(p) => Outcome::Panic(p.describe()),
                },
            );
        }
        pos += total;
    }
}

// ------------------------------------------------------------------------------------------------
// generators

pub fn stream(storage: bool) -> BoxedStrategy<Vec<u8>> {
    let st = if storage {
        g::StorageMode::Always
    } else {
        g::StorageMode::Never
    };
    let msgs = move |n: std::ops::Range<usize>| {
        vec(
            prop_oneof![30 => g::message(g::MsgParams { storage: st, large: false, ..Default::default() }), 1 => g::message(g::MsgParams { storage: st, ..Default::default() })],
            n,
        )
    };
    let cat = |ms: &Vec<RMsg>| {
        let mut b = vec![];
        for m in ms {
            b.extend(refcodec::encode(m));
        }
        b
    };
    let big = move || {
        g::message(g::MsgParams {
            storage: st,
            ..Default::default()
        })
    };
    // bursts: one message sent again and again with a single header field changed from one copy to the next (ECU id,
    // application / context id, level, counter), ids from the small pool the filter configurations refer to
    let bursts = (
        g::message(g::MsgParams {
            storage: st,
            large: false,
            pool_ids: true,
            ..Default::default()
        }),
        prop::bool::weighted(0.9),
        vec((0u8..8, any::<u8>()), 2..10),
    )
        .prop_map(|(mut cur, weid, muts)| {
            if weid && cur.htyp & WEID == 0 {
                cur.htyp |= WEID;
                cur.ecu = Some("ECU".to_string());
                cur.len += 4;
            }
            if let Some(x) = &mut cur.ext {
                x.apid = "APP".to_string();
            }
            let mut b = refcodec::encode(&cur);
            for (what, r) in muts {
                let r = r as usize;
                match what {
                    0..=3 => {
                        if let Some(e) = &mut cur.ecu {
                            *e = ["ECU", "A", "ZZZ", "ECU", "APP"][r % 5].to_string();
                        }
                    }
                    4 => {
                        if let Some(x) = &mut cur.ext {
                            x.apid = ["APP", "A", "", "CTX", "A\0bc", "\0xyz"][r % 6].to_string();
                        }
                    }
                    5 => {
                        if let Some(x) = &mut cur.ext {
                            x.ctid = ["CTX", "CON", "APP", "", "CO\0N", "CTX"][r % 6].to_string();
                        }
                    }
                    6 => cur.mcnt = r as u8,
                    _ => {
                        if let Some(x) = &mut cur.ext {
                            if (x.msin >> 1) & 7 == 0 {
                                x.msin = (x.msin & 0x0f) | (((r % 8) as u8) << 4);
                            }
                        }
                    }
                }
                b.extend(refcodec::encode(&cur));
            }
            b
        });
    prop_oneof![
        // well-formed sequences
        20 => msgs(0..8).prop_map(move |ms| cat(&ms)),
        3 => bursts,
        // long streams (more bytes than the buffers of the small readers hold): many small messages, or a few large ones
        1 => prop_oneof![
            (vec(g::message(g::MsgParams { storage: st, large: false, ..Default::default() }), 150..400), any::<u16>()).prop_map(move |(ms, t)| {
                let mut b = cat(&ms);
                if t < 16384 {
                    let k = (t as usize * 4 * (b.len() + 1)) >> 16;
                    b.truncate(k);
                }
                b
            }),
            (vec(prop_oneof![big(), g::message(g::MsgParams { storage: st, large: false, ..Default::default() })], 3..8), any::<u64>()).prop_map(move |(mut ms, s)| {
                // stretch non-verbose / control payloads so that the stream is long
                for (i, m) in ms.iter_mut().enumerate() {
                    if let RPayload::NonVerbose(_, d) | RPayload::Control(_, d) = &mut m.payload {
                        let hdr = m.htyp;
                        let room = 65535 - headers_len(hdr) - 5;
                        let want = 20_000 + ((s >> (i * 8)) as usize & 0x7fff);
                        if d.len() < want {
                            d.extend(crate::util::expand_bytes(s ^ i as u64, want.min(room) - d.len().min(want.min(room)), 1));
                        }
                        m.len = (headers_len(hdr) + refcodec::payload_len(m)) as u16;
                    }
                }
                cat(&ms)
            }),
        ],
        // deep state: one large message, then more than a thousand small ones (and a large one behind them)
        1 => (big(), vec(g::message(g::MsgParams { storage: st, large: false, ..Default::default() }), 5..12), 1030usize..2100, any::<u64>()).prop_map(move |(mut first, pool, n, s)| {
            if let RPayload::NonVerbose(_, d) | RPayload::Control(_, d) = &mut first.payload {
                if d.len() < 5000 {
                    d.extend(crate::util::expand_bytes(s, 5000, 1));
                    first.len = (headers_len(first.htyp) + refcodec::payload_len(&first)) as u16;
                }
            }
            let mut b = refcodec::encode(&first);
            let enc: Vec<Vec<u8>> = pool.iter().map(refcodec::encode).filter(|e| e.len() <= 300).collect();
            if !enc.is_empty() {
                for i in 0..n {
                    b.extend_from_slice(&enc[(s as usize).wrapping_add(i * 7) % enc.len()]);
                }
                // ... and often the large message once more behind the long run of small ones, followed by a small one
                if s & 1 == 0 {
                    b.extend(refcodec::encode(&first));
                    b.extend_from_slice(&enc[0]);
                    if s & 2 == 0 {
                        b.extend(refcodec::encode(&first));
                    }
                }
            }
            b
        }),
        // a large last message, truncated inside its body
        2 => (msgs(0..3), big(), any::<u64>(), any::<u16>()).prop_map(move |(ms, mut last, s, t)| {
            if let RPayload::NonVerbose(_, d) | RPayload::Control(_, d) = &mut last.payload {
                if d.len() < 40_000 {
                    let room = 65535 - headers_len(last.htyp) - 5;
                    d.extend(crate::util::expand_bytes(s, 40_000.min(room).saturating_sub(d.len()), 1));
                    last.len = (headers_len(last.htyp) + refcodec::payload_len(&last)) as u16;
                }
            }
            let mut b = cat(&ms);
            let e = refcodec::encode(&last);
            let hdr = if storage { 20 } else { 4 };
            let keep = hdr + ((t as usize * (e.len() - hdr)) >> 16);
            b.extend_from_slice(&e[..keep.min(e.len())]);
            b
        }),
        // a record that carries another complete record (and a few more bytes) in its payload, its own marker intact or
        // damaged, between ordinary messages
        3 => (msgs(0..3), g::message(g::MsgParams { storage: st, large: false, ..Default::default() }), any::<u32>(), vec(any::<u8>(), 1..6), prop::option::weighted(0.6, (0usize..4, any::<u8>())), msgs(0..3)).prop_map(
            move |(a, inner, id, extra, damage, b)| {
                let mut payload = refcodec::encode(&inner);
                payload.extend(extra);
                let outer = RMsg {
                    storage: if storage { Some(RStorage { secs: 7, micros: 8, ecu: "OUT".to_string() }) } else { None },
                    htyp: 0x20,
                    mcnt: 1,
                    len: (4 + 4 + payload.len()) as u16,
                    ecu: None,
                    seid: None,
                    tmsp: None,
                    ext: None,
                    payload: RPayload::NonVerbose(id, payload),
                };
                let mut e = refcodec::encode(&outer);
                if let (true, Some((k, v))) = (storage, damage) {
                    e[k] = if e[k] == v { v ^ 1 } else { v };
                }
                let mut out = cat(&a);
                out.extend(e);
                out.extend(cat(&b));
                out
            }
        ),
        // truncated at an arbitrary offset
        16 => (msgs(1..6), any::<u16>()).prop_map(move |(ms, t)| {
            let mut b = cat(&ms);
            let k = (t as usize * (b.len() + 1)) >> 16;
            b.truncate(k);
            b
        }),
        // hostile bytes
        12 => gb::hostile_small(storage),
        // hostile length fields between good messages
        12 => (msgs(0..4), any::<u8>(), prop_oneof![3 => 0u16..4, 2 => 4u16..30, 1 => Just(65535u16), 1 => any::<u16>()], vec(any::<u8>(), 0..40), msgs(0..3)).prop_map(
            move |(a, htyp, len, body, b)| {
                let mut out = cat(&a);
                if storage {
                    out.extend_from_slice(b"DLT\x01\0\0\0\0\0\0\0\0ECU\0");
                }
                out.extend_from_slice(&[htyp, 1]);
                out.extend_from_slice(&len.to_be_bytes());
                out.extend(body);
                out.extend(cat(&b));
                out
            }
        ),
    ]
    .boxed()
}

pub fn schedule() -> BoxedStrategy<Schedule> {
    let step = prop_oneof![
        5 => (1u16..8).prop_map(Step::Data),
        3 => (1u16..64).prop_map(Step::Data),
        1 => prop::sample::select(vec![1u16, 3, 4, 15, 16, 17, 19, 20, 21, 4096, 65535]).prop_map(Step::Data),
        3 => Just(Step::Stall),
        1 => prop_oneof![2 => 2u16..20, 2 => 20u16..300, 1 => prop::sample::select(vec![63u16, 64, 65, 127, 128, 129, 255, 256, 257, 1000, 5000])].prop_map(Step::StallRun),
    ];
    (
        vec(step, 0..60),
        prop_oneof![2 => Just(0u16), 2 => 1u16..=64, 1 => prop::sample::select(vec![1u16, 2, 3, 5, 7, 19, 21, 1000])],
        prop::bool::weighted(0.25),
        // sometimes the first read delivers exactly one header (with / without storage header) and nothing else
        prop_oneof![6 => Just(None), 1 => prop::sample::select(vec![4u16, 20, 16]).prop_map(Some)],
    )
        .prop_map(|(mut steps, then_chunk, then_stall, first)| {
            if let Some(k) = first {
                steps.insert(0, Step::Data(k));
            }
            Schedule { steps, then_chunk, then_stall }
        })
        .boxed()
}

thread_local! {
    /// a second filter configuration for the odd-numbered calls of a run (the filter is an argument of every call)
    static ALT_FILTER: RefCell<Option<Option<ProcessedDltFilterConfig>>> = const { RefCell::new(None) };
}
/// run `f` with call i of every driver / of the reference using `filter` (i even) or the configuration `alt` (i odd)
pub fn with_alternating_filter<T>(alt: Option<u8>, f: impl FnOnce() -> T) -> T {
    ALT_FILTER.with(|a| *a.borrow_mut() = alt.map(filter_for));
    let r = f();
    ALT_FILTER.with(|a| *a.borrow_mut() = None);
    r
}
/// The filter argument of a run lives in ONE object that is assigned anew before every call (a viewer whose filter
/// setting is edited while the stream runs): same address, changing content.
struct LiveFilter(Option<ProcessedDltFilterConfig>);
impl LiveFilter {
    fn set(&mut self, f: Option<ProcessedDltFilterConfig>) -> Option<&ProcessedDltFilterConfig> {
        match (&mut self.0, f) {
            (Some(slot), Some(new)) => *slot = new,
            (slot, new) => *slot = new,
        }
        self.0.as_ref()
    }
}
/// the filter of call number i
fn filter_at(i: usize, filter: Option<&ProcessedDltFilterConfig>) -> Option<ProcessedDltFilterConfig> {
    ALT_FILTER.with(|a| match (&*a.borrow(), i % 2) {
        (Some(alt), 1) => alt.clone(),
        _ => filter.cloned(),
    })
}

pub fn filter_for(i: u8) -> Option<ProcessedDltFilterConfig> {
    if i == 8 {
        // a configuration object without any criterion (keeps everything)
        return Some(ProcessedDltFilterConfig { min_log_level: None, app_ids: None, ecu_ids: None, context_ids: None, app_id_count: 0, context_id_count: 0 });
    }
    filter_by_index(i)
}
