//! Well-formed DLT messages, built by construction (DESIGN.md 3.1).  Everything the quantifier of
//! C01 lists is reachable: all 32 header-flag combinations, every message-type family with canonical
//! codes, every payload kind, every argument kind/width/coding, boundary lengths.
use crate::model::*;
use crate::refcodec;
use crate::util::{expand_bytes, expand_text};
use proptest::collection::vec;
use proptest::prelude::*;

const CHARS: &[&str] = &[
    "A",
    "b",
    "7",
    " ",
    "_",
    "D",
    "L",
    "T",
    "\u{1}",
    "\u{7f}",
    "é",
    "ß",
    "€",
    "日",
    "𝄞",
    "~",
    "/",
    "\"",
    "<",
    "&",
    // scalars that text-handling code likes to treat specially: byte order mark, zero-width and no-break space,
    // controls, a combining mark, a bidi override, the replacement character, the last scalar
    "\u{feff}",
    "\u{200b}",
    "\u{a0}",
    "\t",
    "\n",
    "\r",
    "\u{301}",
    "\u{202e}",
    "\u{fffd}",
    // compatibility letters whose lower-case form has another UTF-8 length (OHM SIGN, KELVIN SIGN, dotted capital I)
    "\u{2126}",
    "\u{212a}",
    "\u{130}",
    "\u{10ffff}",
    "\u{85}",
    "\u{2028}",
];

/// UTF-8 string of at most `max` bytes without NUL, from a small repertoire incl. multi-byte scalars
pub fn short_text(max: usize) -> BoxedStrategy<String> {
    vec(prop::sample::select(CHARS), 0..=max.min(12))
        .prop_map(move |v| {
            let mut s = String::new();
            for c in v {
                if s.len() + c.len() <= max {
                    s.push_str(c);
                }
            }
            s
        })
        .boxed()
}

/// 4-byte id: 0..=4 bytes of UTF-8 without NUL
pub fn id() -> BoxedStrategy<String> {
    prop_oneof![
        4 => short_text(4),
        3 => "[A-Z0-9]{1,4}".prop_map(|s| s),
        1 => Just(String::new()),
        1 => prop::sample::select(vec!["ECU", "APP", "CON", "DLT\u{1}", "TEST", "€a", "𝄞"]).prop_map(|s| s.to_string()),
    ]
    .boxed()
}

/// ids drawn from a small pool (so that filters / statistics see collisions)
pub fn pool_id() -> BoxedStrategy<String> {
    prop::sample::select(vec![
        "", "A", "APP", "APP1", "CTX", "ECU", "é", "€a", "TEST", "Ab7 ", "NONE", "APP ", "app", "Ecu", "Ł",
    ])
    .prop_map(|s| s.to_string())
    .boxed()
}

pub fn truncate_text(s: &mut String, max: usize) {
    if s.len() > max {
        let mut cut = max;
        while !s.is_char_boundary(cut) {
            cut -= 1;
        }
        s.truncate(cut);
    }
}

/// text for names / units / string values: mostly short, sometimes up to `big` bytes
/// lengths around the powers of two (and the 16-bit limits) that size-dependent code paths switch at
const EDGE_LENGTHS: [usize; 38] = [
    15, 16, 17, 31, 32, 33, 63, 64, 65, 127, 128, 129, 255, 256, 257, 511, 512, 513, 599, 600, 601,
    1023, 1024, 1025, 4095, 4096, 4097, 8191, 8192, 16383, 16384, 32767, 32768, 32769, 65532,
    65533, 65534, 65535,
];
fn edge_length(big: usize) -> BoxedStrategy<usize> {
    let v: Vec<usize> = EDGE_LENGTHS.iter().cloned().filter(|l| *l <= big).collect();
    if v.is_empty() {
        Just(big).boxed()
    } else {
        prop::sample::select(v).boxed()
    }
}
pub fn text(big: usize) -> BoxedStrategy<String> {
    prop_oneof![
        24 => short_text(12),
        8 => (any::<u64>(), 0usize..64, 0u8..4).prop_map(|(s, l, a)| expand_text(s, l, a)),
        2 => (any::<u64>(), 0usize..=big, 0u8..4).prop_map(|(s, l, a)| expand_text(s, l, a)),
        // a length on / next to a power of two, the text starting with 0..3 ASCII bytes so that multi-byte characters
        // straddle every fixed offset in some case
        1 => (any::<u64>(), edge_length(big), 0u8..4, 0usize..4).prop_map(|(s, l, a, pre)| {
            let mut t = "xyz"[..pre.min(l)].to_string();
            t.push_str(&expand_text(s, l - pre.min(l), a));
            t
        }),
    ]
    .boxed()
}

/// raw bytes: mostly short, sometimes up to `big` bytes
/// A small complete stored record (storage header + message), a pure function of the seed: what a gateway or a
/// log-in-log transport carries as payload.
pub fn inner_record(seed: u64) -> Vec<u8> {
    let r = crate::util::splitmix64(seed);
    let ueh = r & 1 != 0;
    let htyp = 0x20
        | if ueh { UEH } else { 0 }
        | if r & 2 != 0 { WEID } else { 0 }
        | if r & 4 != 0 { WTMS } else { 0 }
        | if r & 8 != 0 { MSBF } else { 0 };
    let m = RMsg {
        storage: Some(RStorage {
            secs: (r >> 8) as u32,
            micros: ((r >> 40) % 1_000_000) as u32,
            ecu: "GW".to_string(),
        }),
        htyp,
        mcnt: (r >> 16) as u8,
        len: 0,
        ecu: if htyp & WEID != 0 {
            Some("IN".to_string())
        } else {
            None
        },
        seid: None,
        tmsp: if htyp & WTMS != 0 {
            Some((r >> 24) as u32)
        } else {
            None
        },
        ext: if ueh {
            Some(RExt {
                msin: 0x40,
                noar: 0,
                apid: "INR".to_string(),
                ctid: "REC".to_string(),
            })
        } else {
            None
        },
        payload: RPayload::NonVerbose(
            (r >> 32) as u32,
            expand_bytes(r, ((r >> 20) % 6) as usize, 0),
        ),
    };
    refcodec::encode(&finish(m, None))
}
/// 2..=4 complete stored records back to back, optionally with a few bytes in front and behind
fn carrier() -> BoxedStrategy<Vec<u8>> {
    (
        any::<u64>(),
        2usize..=4,
        vec(any::<u8>(), 0..3),
        vec(any::<u8>(), 0..3),
        prop::bool::weighted(0.3),
    )
        .prop_map(|(seed, n, mut lead, tail, framed)| {
            if !framed {
                lead.clear();
            }
            for k in 0..n {
                lead.extend(inner_record(seed.wrapping_add(k as u64)));
            }
            if framed {
                lead.extend(tail);
            }
            lead
        })
        .boxed()
}

pub fn blob(big: usize) -> BoxedStrategy<Vec<u8>> {
    prop_oneof![
        1 => carrier(),
        20 => vec(any::<u8>(), 0..12),
        8 => (any::<u64>(), 0usize..64, 0u8..6).prop_map(|(s, l, a)| expand_bytes(s, l, a)),
        2 => (any::<u64>(), 0usize..=big, 0u8..6).prop_map(|(s, l, a)| expand_bytes(s, l, a)),
        1 => (any::<u64>(), edge_length(big), 0u8..6).prop_map(|(s, l, a)| expand_bytes(s, l, a)),
    ]
    .boxed()
}

pub const ALL_KINDS: [RKind; 18] = [
    RKind::Bool,
    RKind::Sint(8),
    RKind::Sint(16),
    RKind::Sint(32),
    RKind::Sint(64),
    RKind::Sint(128),
    RKind::Uint(8),
    RKind::Uint(16),
    RKind::Uint(32),
    RKind::Uint(64),
    RKind::Uint(128),
    RKind::SintFx(32),
    RKind::SintFx(64),
    RKind::UintFx(32),
    RKind::UintFx(64),
    RKind::Float(32),
    RKind::Float(64),
    RKind::Str,
];
pub fn kind() -> BoxedStrategy<RKind> {
    prop_oneof![
        18 => prop::sample::select(ALL_KINDS.to_vec()),
        2 => Just(RKind::Raw),
        1 => Just(RKind::Str),
    ]
    .boxed()
}

pub fn uint_value(bits: u8) -> BoxedStrategy<u128> {
    let mask: u128 = if bits == 128 {
        u128::MAX
    } else {
        (1u128 << bits) - 1
    };
    prop_oneof![
        3 => prop::sample::select(vec![0u128, 1, 2, 0x7f, 0x80, 0xff, 0x100, 1000, u128::MAX, u128::MAX >> 1, (u128::MAX >> 1) + 1])
            .prop_map(move |v| v & mask),
        4 => any::<u128>().prop_map(move |v| v & mask),
        2 => (any::<u128>(), 0u32..128).prop_map(move |(v, s)| (v >> s) & mask),
    ]
    .boxed()
}
pub fn sint_value(bits: u8) -> BoxedStrategy<i128> {
    let sh = 128 - bits as u32;
    uint_value(bits)
        .prop_map(move |u| ((u << sh) as i128) >> sh)
        .boxed()
}
pub fn f32_bits() -> BoxedStrategy<u32> {
    prop_oneof![
        3 => prop::sample::select(vec![
            0u32, 0x8000_0000, 0x3f80_0000, 0xbf80_0000, 0x7f80_0000, 0xff80_0000, 0x7fc0_0000, 0x7fa0_0001, 0xffc1_2345, 1, 0x007f_ffff,
            0x3c23_d70a, 0x3dcc_cccd, 0x4120_0000, 0x3f00_0000,
        ]),
        3 => any::<u32>(),
        2 => any::<f32>().prop_map(|f| f.to_bits()),
    ]
    .boxed()
}
pub fn f64_bits() -> BoxedStrategy<u64> {
    prop_oneof![
        3 => prop::sample::select(vec![
            0u64, 0x8000_0000_0000_0000, 0x3ff0_0000_0000_0000, 0x7ff0_0000_0000_0000, 0xfff0_0000_0000_0000, 0x7ff8_0000_0000_0000,
            0x7ff4_0000_0000_0001, 1,
        ]),
        3 => any::<u64>(),
        2 => any::<f64>().prop_map(|f| f.to_bits()),
    ]
    .boxed()
}

pub fn value_for(kind: RKind, big: usize) -> BoxedStrategy<RVal> {
    match kind {
        RKind::Bool => prop_oneof![2 => 0u8..=1, 1 => any::<u8>()]
            .prop_map(RVal::Bool)
            .boxed(),
        RKind::Sint(b) | RKind::SintFx(b) => sint_value(b).prop_map(RVal::I).boxed(),
        RKind::Uint(b) | RKind::UintFx(b) => uint_value(b).prop_map(RVal::U).boxed(),
        RKind::Float(32) => f32_bits().prop_map(RVal::F32).boxed(),
        RKind::Float(_) => f64_bits().prop_map(RVal::F64).boxed(),
        RKind::Str => text(big).prop_map(RVal::Str).boxed(),
        RKind::Raw => blob(big).prop_map(RVal::Raw).boxed(),
    }
}

pub fn scod() -> BoxedStrategy<u8> {
    prop_oneof![3 => Just(0u8), 3 => Just(1u8), 2 => 2u8..=7].boxed()
}

/// a well-formed argument of the given kind (name/unit presence follows the variable-info flag)
pub fn arg_of(kind: RKind, big: usize) -> BoxedStrategy<RArg> {
    (
        value_for(kind, big),
        scod(),
        prop::bool::weighted(0.35),
        prop::bool::weighted(0.15),
        text(700),
        text(700),
        f32_bits(),
        sint_value(64),
    )
        .prop_map(move |(val, scod, vari, trai, name, unit, q, off)| {
            let numeric = !matches!(kind, RKind::Bool | RKind::Str | RKind::Raw);
            let fixp = match kind {
                RKind::SintFx(32) | RKind::UintFx(32) => Some((q, off as i32 as i64)),
                RKind::SintFx(_) | RKind::UintFx(_) => Some((q, off as i64)),
                _ => None,
            };
            RArg {
                ty: RType {
                    kind,
                    vari,
                    trai,
                    scod,
                },
                name: if vari { Some(name) } else { None },
                unit: if vari && numeric { Some(unit) } else { None },
                fixp,
                val,
            }
        })
        .boxed()
}
pub fn arg(big: usize) -> BoxedStrategy<RArg> {
    kind().prop_flat_map(move |k| arg_of(k, big)).boxed()
}
/// argument as it appears in a network-trace payload: raw data, no flags
pub fn nw_arg(big: usize) -> BoxedStrategy<RArg> {
    blob(big)
        .prop_map(|d| RArg {
            ty: RType {
                kind: RKind::Raw,
                vari: false,
                trai: false,
                scod: 0,
            },
            name: None,
            unit: None,
            fixp: None,
            val: RVal::Raw(d),
        })
        .boxed()
}

#[derive(Debug, Clone, Copy, PartialEq, Eq)]
pub enum StorageMode {
    Never,
    Always,
    Either,
}

#[derive(Debug, Clone)]
pub struct MsgParams {
    pub storage: StorageMode,
    /// allow payload elements up to the 16-bit limit and the "fill to the limit" knob
    pub large: bool,
    /// ids from a small pool (filters, statistics)
    pub pool_ids: bool,
    /// fix the five header flags (bits 0-4 of HTYP) and the MSIN byte (systematic grid of C02)
    pub cell: Option<(u8, u8)>,
    /// non-verbose / control messages may carry a non-zero NOAR byte (real ECUs do: the crate's own documentation
    /// example is a control message with NOAR = 1); off where the quantifier asks for "argument count consistent"
    pub free_noar: bool,
}
impl Default for MsgParams {
    fn default() -> Self {
        MsgParams {
            storage: StorageMode::Either,
            large: true,
            pool_ids: false,
            cell: None,
            free_noar: false,
        }
    }
}

#[derive(Debug, Clone)]
enum PayloadSpec {
    Verbose(Vec<RArg>),
    NwTrace(Vec<RArg>),
    Control(u8, Vec<u8>),
    NonVerbose(u32, Vec<u8>),
}

/// Pairs of different texts of equal length that collide under a common 32-bit string hash (FNV-1a, FNV-1, djb2, sdbm,
/// the 31-multiplier hash, CRC-32), found by a birthday search over 400 000 six-letter words when first needed: inputs
/// for code that recognises a text by its hash.
pub fn colliding_texts() -> &'static Vec<(String, String)> {
    static TABLE: std::sync::OnceLock<Vec<(String, String)>> = std::sync::OnceLock::new();
    TABLE.get_or_init(|| {
        let word = |mut n: u32| -> [u8; 6] {
            let mut w = [b'a'; 6];
            for c in w.iter_mut().rev() {
                *c = b'a' + (n % 26) as u8;
                n /= 26;
            }
            w
        };
        let hashes: [fn(&[u8]) -> u32; 6] = [
            |b| b.iter().fold(0x811c_9dc5u32, |h, c| (h ^ *c as u32).wrapping_mul(0x0100_0193)),
            |b| b.iter().fold(0x811c_9dc5u32, |h, c| h.wrapping_mul(0x0100_0193) ^ *c as u32),
            |b| b.iter().fold(5381u32, |h, c| h.wrapping_mul(33).wrapping_add(*c as u32)),
            |b| b.iter().fold(0u32, |h, c| (*c as u32).wrapping_add(h << 6).wrapping_add(h << 16).wrapping_sub(h)),
            |b| b.iter().fold(0u32, |h, c| h.wrapping_mul(31).wrapping_add(*c as u32)),
            |b| {
                !b.iter().fold(!0u32, |mut h, c| {
                    h ^= *c as u32;
                    for _ in 0..8 {
                        h = if h & 1 != 0 { (h >> 1) ^ 0xedb8_8320 } else { h >> 1 };
                    }
                    h
                })
            },
        ];
        let mut out = vec![];
        for hf in hashes {
            let mut seen: std::collections::HashMap<u32, u32> = std::collections::HashMap::with_capacity(400_000);
            let mut found = 0;
            for n in 0..400_000u32 {
                // (spread the words over the whole six-letter space)
                let k = n.wrapping_mul(769) % 308_915_776;
                let h = hf(&word(k));
                if let Some(prev) = seen.insert(h, k) {
                    if prev != k {
                        out.push((String::from_utf8_lossy(&word(prev)).to_string(), String::from_utf8_lossy(&word(k)).to_string()));
                        found += 1;
                        if found >= 4 {
                            break;
                        }
                    }
                }
            }
        }
        out
    })
}

fn arg_list(large: bool, elem: BoxedStrategy<RArg>) -> BoxedStrategy<Vec<RArg>> {
    let list = if large {
        prop_oneof![40 => vec(elem.clone(), 0..8), 4 => vec(elem.clone(), 8..40), 1 => vec(elem.clone(), 200..=255), 1 => vec(elem, 254..=255)].boxed()
    } else {
        vec(elem, 0..6).boxed()
    };
    // neighbours that are equal, or equal under `==` but not bit for bit (+0.0 / -0.0, the same NaN / another NaN):
    // some arguments become a copy of their predecessor with such a twist
    (list, vec(any::<u8>(), 8))
        .prop_map(|(mut args, sel)| {
            for i in 1..args.len() {
                let t = sel[i % sel.len()].wrapping_add(i as u8);
                if t % 9 != 0 {
                    continue;
                }
                let mut c = args[i - 1].clone();
                match (t / 9) % 9 {
                    0 => {}
                    8 => {
                        // two different texts that collide under a common string hash, in the same role of both neighbours
                        let table = colliding_texts();
                        if !table.is_empty() {
                            let (a, b2) = table[(t as usize / 81 + i) % table.len()].clone();
                            if let (RVal::Str(_), Some(prev)) = (&c.val, args.get_mut(i - 1)) {
                                prev.val = RVal::Str(a);
                                c.val = RVal::Str(b2);
                            } else if c.name.is_some() {
                                if let Some(prev) = args.get_mut(i - 1) {
                                    prev.name = Some(a);
                                }
                                c.name = Some(b2);
                            }
                        }
                    }
                    // relations between neighbours that differ: only the unit, only the scaling, a name that extends the
                    // predecessor's name, a repeat of the first argument behind a different one
                    4 => {
                        if let Some(u) = &mut c.unit {
                            u.push('x');
                        }
                    }
                    5 => {
                        if let Some((q, off)) = c.fixp {
                            c.fixp = Some((q ^ 0x0040_0000, off.wrapping_add(1)));
                        }
                    }
                    6 => {
                        if let Some(n) = &mut c.name {
                            n.push_str("_x");
                        }
                    }
                    7 => {
                        c = args[0].clone();
                    }
                    1 => {
                        // zero of the other sign / other NaN payload in the value
                        c.val = match c.val {
                            RVal::F32(b) if b & 0x7fff_ffff == 0 => RVal::F32(b ^ 0x8000_0000),
                            RVal::F64(b) if b & 0x7fff_ffff_ffff_ffff == 0 => {
                                RVal::F64(b ^ 0x8000_0000_0000_0000)
                            }
                            RVal::F32(_) => RVal::F32(if t & 1 == 0 { 0 } else { 0x8000_0000 }),
                            RVal::F64(_) => {
                                RVal::F64(if t & 1 == 0 { 0 } else { 0x8000_0000_0000_0000 })
                            }
                            v => v,
                        };
                        if let (RVal::F32(_) | RVal::F64(_), Some(prev)) =
                            (&c.val, args.get_mut(i - 1))
                        {
                            // make the pair (+0.0, -0.0)
                            prev.val = match &c.val {
                                RVal::F32(b) => RVal::F32(b ^ 0x8000_0000),
                                RVal::F64(b) => RVal::F64(b ^ 0x8000_0000_0000_0000),
                                v => v.clone(),
                            };
                        }
                    }
                    2 => {
                        // quantization zero of the other sign
                        if let Some((q, off)) = c.fixp {
                            if let Some(prev) = args.get_mut(i - 1) {
                                prev.fixp = Some((0, off));
                            }
                            c.fixp = Some((0x8000_0000, off));
                            let _ = q;
                        }
                    }
                    _ => {
                        c.val = match c.val {
                            RVal::F32(_) => RVal::F32(0x7fc0_0001),
                            RVal::F64(_) => RVal::F64(0x7ff8_0000_0000_0001),
                            v => v,
                        };
                    }
                }
                args[i] = c;
            }
            args
        })
        .boxed()
}

/// payload of the kind a given MSIN byte admits
fn payload_for_msin(msin: u8, large: bool) -> BoxedStrategy<(u8, PayloadSpec)> {
    let big = if large { 65535 } else { 40 };
    let mstp = (msin >> 1) & 7;
    if msin & 1 != 0 {
        if mstp == 2 {
            arg_list(large, nw_arg(big))
                .prop_map(move |a| (msin, PayloadSpec::NwTrace(a)))
                .boxed()
        } else {
            arg_list(large, arg(big))
                .prop_map(move |a| (msin, PayloadSpec::Verbose(a)))
                .boxed()
        }
    } else if mstp == 3 {
        (any::<u8>(), blob(big))
            .prop_map(move |(s, d)| (msin, PayloadSpec::Control(s, d)))
            .boxed()
    } else {
        (any::<u32>(), blob(big))
            .prop_map(move |(id, d)| (msin, PayloadSpec::NonVerbose(id, d)))
            .boxed()
    }
}

fn payload_spec(ueh: bool, large: bool) -> BoxedStrategy<(u8, PayloadSpec)> {
    let big = if large { 65535 } else { 40 };
    let nonverbose = |msin: BoxedStrategy<u8>| {
        (msin, any::<u32>(), blob(big))
            .prop_map(|(msin, id, d)| (msin & !1, PayloadSpec::NonVerbose(id, d)))
            .boxed()
    };
    if !ueh {
        return nonverbose(Just(0u8).boxed());
    }
    // MSIN: mstp bits 1-3, mtin bits 4-7
    let mtin = || prop_oneof![3 => 0u8..=7, 1 => 8u8..=15];
    let verbose_msin = (
        prop::sample::select(vec![0u8, 0, 0, 1, 3, 4, 5, 6, 7]),
        mtin(),
    )
        .prop_map(|(t, i)| (t << 1) | (i << 4) | 1);
    let nonverbose_msin = (prop::sample::select(vec![0u8, 0, 1, 2, 4, 5, 6, 7]), mtin())
        .prop_map(|(t, i)| (t << 1) | (i << 4));
    let nw_msin = mtin().prop_map(|i| (2 << 1) | (i << 4) | 1);
    let ctrl_msin = mtin().prop_map(|i| (3 << 1) | (i << 4));
    let service = prop_oneof![2 => 0u8..=4, 1 => any::<u8>()];
    prop_oneof![
        10 => (verbose_msin, arg_list(large, arg(big))).prop_map(|(m, a)| (m, PayloadSpec::Verbose(a))),
        3 => (nw_msin, arg_list(large, nw_arg(big))).prop_map(|(m, a)| (m, PayloadSpec::NwTrace(a))),
        3 => (ctrl_msin, service, blob(big)).prop_map(|(m, s, d)| (m, PayloadSpec::Control(s, d))),
        4 => nonverbose(nonverbose_msin.boxed()),
    ]
    .boxed()
}

/// Finish a message: enforce the 16-bit budget by construction, apply the fill knob, set NOAR and LEN.
pub fn finish(mut m: RMsg, fill: Option<u32>) -> RMsg {
    let hdr = headers_len(m.htyp);
    let budget = 65535 - hdr;
    // budget: drop / shorten trailing elements until the payload fits
    loop {
        let pl = refcodec::payload_len(&m);
        if pl <= budget {
            break;
        }
        let over = pl - budget;
        match &mut m.payload {
            RPayload::Verbose(args) => {
                // keep the number of arguments: shorten the bulkiest argument first, drop one only when nothing can shrink
                let bulk = |a: &RArg| -> usize {
                    (match &a.val {
                        RVal::Raw(d) => d.len(),
                        RVal::Str(s) => s.len(),
                        _ => 0,
                    }) + a.name.as_ref().map_or(0, |n| n.len())
                        + a.unit.as_ref().map_or(0, |n| n.len())
                };
                let fattest = args
                    .iter()
                    .enumerate()
                    .max_by_key(|(_, a)| bulk(a))
                    .map(|(i, a)| (i, bulk(a)));
                match fattest {
                    Some((i, b)) if b > 0 => shorten_arg(&mut args[i], over),
                    _ => {
                        args.pop();
                    }
                }
            }
            RPayload::NonVerbose(_, d) | RPayload::Control(_, d) => {
                let n = d.len().saturating_sub(over);
                d.truncate(n);
            }
        }
    }
    if let Some(target) = fill {
        let target = target as usize;
        let pl = refcodec::payload_len(&m);
        let total = hdr + pl;
        if target > total {
            let delta = target - total;
            match &mut m.payload {
                RPayload::Verbose(args) => {
                    if let Some(a) = args
                        .iter_mut()
                        .rev()
                        .find(|a| matches!(a.val, RVal::Raw(_) | RVal::Str(_)))
                    {
                        match &mut a.val {
                            RVal::Raw(d) => {
                                let add = delta.min(65535 - d.len());
                                d.extend(expand_bytes(delta as u64, add, 0));
                            }
                            RVal::Str(s) => {
                                let add = delta.min(65534 - s.len());
                                s.push_str(&expand_text(delta as u64, add, (delta % 4) as u8));
                            }
                            _ => {}
                        }
                    }
                }
                RPayload::NonVerbose(_, d) | RPayload::Control(_, d) => {
                    d.extend(expand_bytes(delta as u64, delta, 0))
                }
            }
        }
    }
    if let (Some(e), RPayload::Verbose(args)) = (&mut m.ext, &m.payload) {
        e.noar = args.len() as u8;
    }
    m.len = (hdr + refcodec::payload_len(&m)) as u16;
    m
}

fn shorten_arg(a: &mut RArg, over: usize) {
    let mut over = over;
    if let RVal::Raw(d) = &mut a.val {
        let cut = over.min(d.len());
        d.truncate(d.len() - cut);
        over -= cut;
    }
    if let RVal::Str(s) = &mut a.val {
        let keep = s.len().saturating_sub(over);
        let before = s.len();
        truncate_text(s, keep);
        over = over.saturating_sub(before - s.len());
    }
    for t in [&mut a.name, &mut a.unit].into_iter().flatten() {
        if over > 0 {
            let keep = t.len().saturating_sub(over);
            let before = t.len();
            truncate_text(t, keep);
            over = over.saturating_sub(before - t.len());
        }
    }
}

/// The generator of well-formed messages.
pub fn message(p: MsgParams) -> BoxedStrategy<RMsg> {
    let storage = match p.storage {
        StorageMode::Never => Just(false).boxed(),
        StorageMode::Always => Just(true).boxed(),
        StorageMode::Either => any::<bool>().boxed(),
    };
    let idg = if p.pool_ids { pool_id() } else { id() };
    let large = p.large;
    let fill = if large {
        prop_oneof![
            60 => Just(None),
            1 => prop::sample::select(vec![65535u32, 65534, 65533, 65520, 32767, 32768, 32769, 256, 257, 255]).prop_map(Some),
        ]
        .boxed()
    } else {
        Just(None).boxed()
    };
    let cell = p.cell;
    let free_noar = p.free_noar;
    // "magic" knob: HTYP, MCNT and LEN of the message itself spell a 4-byte marker of the DLT ecosystem — the storage
    // pattern "DLT\x01" or the serial-header marker "DLS\x01" (version 2, ECU id only, counter 'L', length 0x5401 / 0x5301)
    let magic = if large && cell.is_none() {
        prop_oneof![400 => Just(None), 1 => prop::sample::select(vec![0x5401u16, 0x5301]).prop_map(Some)].boxed()
    } else {
        Just(None).boxed()
    };
    let flags_ueh = match cell {
        Some((f, _)) => (
            any::<u8>().prop_map(move |r| (r & 0xe0) | (f & 0x1f)),
            Just(f & UEH != 0),
        )
            .boxed(),
        None => (any::<u8>(), prop::bool::weighted(0.8)).boxed(),
    };
    (
        (flags_ueh, any::<u8>(), storage).prop_map(|((f, u), m, s)| (f, u, m, s)),
        (idg.clone(), idg.clone(), idg.clone(), idg),
        (any::<u32>(), any::<u32>(), any::<u32>(), any::<u32>(), 0u8..120),
        (
            fill,
            magic,
            prop_oneof![6 => Just(0u8), 2 => 1u8..4, 1 => any::<u8>()],
        ),
    )
        .prop_flat_map(
            move |((flags, ueh, mcnt, with_storage), ids, nums, (fill, magic, noar))| {
                let (flags, ueh, mcnt, fill) = match magic {
                    Some(len) => (0x44u8, false, b'L', Some(len as u32)),
                    None => (flags, ueh, mcnt, fill),
                };
                let spec = match cell {
                    Some((_, msin)) if ueh => payload_for_msin(msin, large),
                    _ => payload_spec(ueh, large),
                };
                spec.prop_map(move |(msin, spec)| {
                    let (sh_ecu, ecu, apid, ctid) = ids.clone();
                    let (secs, micros, seid, tmsp, rel) = nums;
                    // flags: version bits 5-7 and WEID/WSID/WTMS/MSBF from the random byte, UEH as chosen
                    let htyp = (flags & !UEH) | if ueh { UEH } else { 0 };
                    let payload = match spec.clone() {
                        PayloadSpec::Verbose(a) | PayloadSpec::NwTrace(a) => RPayload::Verbose(a),
                        PayloadSpec::Control(s, d) => RPayload::Control(s, d),
                        PayloadSpec::NonVerbose(id, d) => RPayload::NonVerbose(id, d),
                    };
                    let m = RMsg {
                        storage: if with_storage {
                            Some(RStorage {
                                secs,
                                micros,
                                ecu: sh_ecu,
                            })
                        } else {
                            None
                        },
                        htyp,
                        mcnt,
                        len: 0,
                        ecu: if htyp & WEID != 0 { Some(ecu) } else { None },
                        seid: if htyp & WSID != 0 { Some(seid) } else { None },
                        tmsp: if htyp & WTMS != 0 { Some(tmsp) } else { None },
                        ext: if ueh {
                            Some(RExt {
                                msin,
                                noar: if free_noar { noar } else { 0 },
                                apid,
                                ctid,
                            })
                        } else {
                            None
                        },
                        payload,
                    };
                    finish(relate(m, rel), fill)
                })
            },
        )
        .boxed()
}

/// Relations between fields that are drawn independently otherwise (about 8 % of the messages): the same value in
/// two roles, one id a prefix of another, a number whose bytes spell an id, a carried record that continues its carrier.
fn relate(mut m: RMsg, rel: u8) -> RMsg {
    let prefix = |s: &str| -> String {
        let n = s.chars().count();
        s.chars().take(n.saturating_sub(1).max(1).min(n)).collect()
    };
    match rel {
        0 => {
            if let (Some(st), Some(e)) = (&m.storage, &mut m.ecu) {
                *e = st.ecu.clone();
            }
        }
        1 => {
            if let (Some(st), Some(e)) = (&m.storage, &mut m.ecu) {
                *e = prefix(&st.ecu);
            }
        }
        2 => {
            if let (Some(st), Some(e)) = (&mut m.storage, &m.ecu) {
                st.ecu = prefix(e);
            }
        }
        3 => {
            if let Some(x) = &mut m.ext {
                x.ctid = x.apid.clone();
            }
        }
        4 => {
            if let (Some(x), Some(e)) = (&mut m.ext, &m.ecu) {
                x.ctid = e.clone();
            }
        }
        5 => {
            if let (Some(x), Some(e)) = (&m.ext, &mut m.ecu) {
                *e = x.apid.clone();
            }
        }
        6 => {
            // the session id spells the ECU id
            if let (Some(e), Some(sid)) = (&m.ecu, &mut m.seid) {
                let mut b = [0u8; 4];
                for (i, x) in e.bytes().take(4).enumerate() {
                    b[i] = x;
                }
                *sid = u32::from_be_bytes(b);
            }
        }
        7 => {
            if let (Some(t), Some(sid)) = (&mut m.tmsp, &m.seid) {
                *t = *sid;
            }
        }
        10 => {
            // the storage time is the message's own time stamp in whole seconds
            if let (Some(st), Some(t)) = (&mut m.storage, &m.tmsp) {
                st.secs = *t;
                st.micros = 0;
            }
        }
        11 => {
            // an extended header of ten zero bytes
            if let Some(x) = &mut m.ext {
                if matches!(m.payload, RPayload::NonVerbose(..)) {
                    x.msin = 0;
                    x.apid = String::new();
                    x.ctid = String::new();
                }
            }
        }
        12 | 13 => {
            // the payload data begin with the message id (in the message's byte order, or in the other one)
            let big = (m.htyp & MSBF != 0) == (rel == 12);
            if let RPayload::NonVerbose(id, d) = &mut m.payload {
                if d.len() >= 4 {
                    let b = if big { id.to_be_bytes() } else { id.to_le_bytes() };
                    d[..4].copy_from_slice(&b);
                }
            }
        }
        8 | 9 => {
            // a carried run of records continues the carrier: same storage ECU id, counter + 1 (and, for 9, a header
            // ECU id that agrees with its storage id while the carrier's differ)
            let (outer_ecu, next) = match &m.storage {
                Some(st) => (st.ecu.clone(), m.mcnt.wrapping_add(1)),
                None => return m,
            };
            if let RPayload::NonVerbose(_, d) | RPayload::Control(_, d) = &mut m.payload {
                if let Some(o) = d.windows(4).position(|w| w == b"DLT\x01") {
                    if o <= 3 && d.len() >= o + 24 {
                        let mut id = [0u8; 4];
                        for (i, x) in outer_ecu.bytes().take(4).enumerate() {
                            id[i] = x;
                        }
                        d[o + 12..o + 16].copy_from_slice(&id);
                        d[o + 17] = next;
                        if d[o + 16] & WEID != 0 && rel == 9 {
                            let (a, b) = d.split_at_mut(o + 20);
                            b[..4].copy_from_slice(&a[o + 12..o + 16]);
                        }
                    }
                }
            }
        }
        _ => {}
    }
    m
}

/// What follows a message in the buffer (C01, C04, C06).
pub fn suffix() -> BoxedStrategy<Vec<u8>> {
    prop_oneof![
        3 => Just(vec![]),
        4 => vec(any::<u8>(), 1..40),
        2 => prop::sample::select(vec![b"D".to_vec(), b"DL".to_vec(), b"DLT".to_vec(), b"DLT\x01".to_vec(), b"DLT\x01\0\0".to_vec()]),
        3 => message(MsgParams { large: false, ..Default::default() }).prop_map(|m| refcodec::encode(&m)),
        1 => (any::<u64>(), 0usize..3000, 0u8..6).prop_map(|(s, l, a)| expand_bytes(s, l, a)),
    ]
    .boxed()
}

/// class labels describing a well-formed message (for the evidence histogram)
pub fn classes_of(m: &RMsg) -> Vec<&'static str> {
    let mut c = vec![m.payload_kind()];
    c.push(if m.big_endian() {
        "big-endian"
    } else {
        "little-endian"
    });
    c.push(if m.htyp & UEH != 0 {
        "ext-header"
    } else {
        "no-ext-header"
    });
    c.push(if m.storage.is_some() {
        "storage"
    } else {
        "no-storage"
    });
    if m.len as usize >= 60000 {
        c.push("len>=60000");
    }
    if m.len == 65535 {
        c.push("len=65535");
    }
    if let RPayload::Verbose(a) = &m.payload {
        if a.len() >= 16 {
            c.push("noar>=16");
        }
        if a.len() == 255 {
            c.push("noar=255");
        }
        if a.is_empty() {
            c.push("noar=0");
        }
        for x in a {
            c.push(kind_label(x.ty.kind));
            if x.ty.vari {
                c.push("arg:vari");
            }
        }
    }
    c
}
pub fn kind_label(k: RKind) -> &'static str {
    match k {
        RKind::Bool => "arg:bool",
        RKind::Sint(8) => "arg:s8",
        RKind::Sint(16) => "arg:s16",
        RKind::Sint(32) => "arg:s32",
        RKind::Sint(64) => "arg:s64",
        RKind::Sint(_) => "arg:s128",
        RKind::Uint(8) => "arg:u8",
        RKind::Uint(16) => "arg:u16",
        RKind::Uint(32) => "arg:u32",
        RKind::Uint(64) => "arg:u64",
        RKind::Uint(_) => "arg:u128",
        RKind::SintFx(32) => "arg:sfx32",
        RKind::SintFx(_) => "arg:sfx64",
        RKind::UintFx(32) => "arg:ufx32",
        RKind::UintFx(_) => "arg:ufx64",
        RKind::Float(32) => "arg:f32",
        RKind::Float(_) => "arg:f64",
        RKind::Str => "arg:string",
        RKind::Raw => "arg:raw",
    }
}
