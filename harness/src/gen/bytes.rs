//! Hostile byte strings (DESIGN.md 3.3): canonical, dialect, mutated, arbitrary and large inputs.
//! Every branch is a proptest strategy over a *structure* that is rendered to bytes by a pure
//! function, so failures shrink structurally and the saved case is just the rendered buffer.
use super::message as g;
use crate::model::*;
use crate::refcodec::{self, Role};
use crate::util::expand_bytes;
use proptest::collection::vec;
use proptest::prelude::*;

/// monotone index map (keeps shrinking monotone, unlike `%`)
fn idx(frac: u16, len: usize) -> usize {
    ((frac as usize) * (len + 1)) >> 16
}

const IDA: &[u8] = &[
    0, b'A', b'b', b'7', 0xC3, 0xA9, 0xFF, b' ', 0xE2, 0x82, 0xAC,
];

fn id_bytes() -> BoxedStrategy<Vec<u8>> {
    prop_oneof![
        3 => vec(prop::sample::select(IDA), 4),
        2 => "[A-Z]{1,4}".prop_map(|s| { let mut b = s.into_bytes(); b.resize(4, 0); b }),
        1 => vec(any::<u8>(), 4),
    ]
    .boxed()
}

/// text bytes as found on the wire: from a small alphabet, mostly NUL terminated
fn wire_text() -> BoxedStrategy<Vec<u8>> {
    (
        vec(prop::sample::select(IDA), 0..6),
        prop::bool::weighted(0.8),
    )
        .prop_map(|(mut t, term)| {
            if term {
                t.push(0);
            }
            t
        })
        .boxed()
}

/// An argument as wire-level choices (dialect generator).
#[derive(Debug, Clone)]
struct WArg {
    kind_sel: u8,
    tyle: u8,
    flags: u8, // bit0 VARI, bit1 FIXP, bit2 TRAI, bit3 STRU
    scod: u8,
    upper: u32, // bits 18..31
    name: Vec<u8>,
    unit: Vec<u8>,
    text: Vec<u8>,
    data: Vec<u8>,
    len_override: Option<u16>,
    filler: Vec<u8>,
}
fn warg() -> BoxedStrategy<WArg> {
    (
        (
            prop_oneof![19 => 0u8..6, 1 => 6u8..8],
            prop_oneof![9 => 1u8..=5, 1 => 0u8..16],
        ),
        (
            prop::bool::weighted(0.3),
            prop::bool::weighted(0.2),
            prop::bool::weighted(0.1),
            prop::bool::weighted(0.1),
            prop_oneof![7 => Just(0u8), 3 => 0u8..8],
            prop_oneof![9 => Just(0u32), 1 => any::<u32>()],
        ),
        (
            wire_text(),
            wire_text(),
            wire_text(),
            vec(any::<u8>(), 0..6),
        ),
        prop_oneof![19 => Just(None), 1 => any::<u16>().prop_map(Some)],
        vec(any::<u8>(), 28),
    )
        .prop_map(
            |(
                (kind_sel, tyle),
                (vari, fixp, trai, stru, scod, upper),
                (name, unit, text, data),
                len_override,
                filler,
            )| WArg {
                kind_sel,
                tyle,
                flags: vari as u8 | (fixp as u8) << 1 | (trai as u8) << 2 | (stru as u8) << 3,
                scod,
                upper,
                name,
                unit,
                text,
                data,
                len_override,
                filler,
            },
        )
        .boxed()
}
fn render_arg(a: &WArg, be: bool, o: &mut Vec<u8>) {
    const KINDS: [u32; 8] = [0x10, 0x20, 0x40, 0x80, 0x200, 0x400, 0x100, 0x30];
    let mut w = KINDS[a.kind_sel as usize % 8] | (a.tyle as u32 & 0xf);
    if a.flags & 1 != 0 {
        w |= 1 << 11;
    }
    if a.flags & 2 != 0 {
        w |= 1 << 12;
    }
    if a.flags & 4 != 0 {
        w |= 1 << 13;
    }
    if a.flags & 8 != 0 {
        w |= 1 << 14;
    }
    w |= (a.scod as u32 & 7) << 15;
    w |= a.upper << 18;
    let p16 = |o: &mut Vec<u8>, v: u16| {
        o.extend_from_slice(&if be { v.to_be_bytes() } else { v.to_le_bytes() })
    };
    o.extend_from_slice(&if be { w.to_be_bytes() } else { w.to_le_bytes() });
    let vari = w & (1 << 11) != 0;
    match refcodec::decode_type(w).map(|t| t.kind) {
        None => o.extend_from_slice(&a.data),
        Some(RKind::Bool) => {
            if vari {
                p16(o, a.name.len() as u16);
                o.extend_from_slice(&a.name);
            }
            o.push(a.filler[0]);
        }
        Some(k @ (RKind::Str | RKind::Raw)) => {
            let d = if k == RKind::Str { &a.text } else { &a.data };
            p16(o, a.len_override.unwrap_or(d.len() as u16));
            if vari {
                p16(o, a.name.len() as u16);
                o.extend_from_slice(&a.name);
            }
            o.extend_from_slice(d);
        }
        Some(k) => {
            if vari {
                p16(o, a.name.len() as u16);
                p16(o, a.unit.len() as u16);
                o.extend_from_slice(&a.name);
                o.extend_from_slice(&a.unit);
            }
            let bytes = match k {
                RKind::Sint(b)
                | RKind::Uint(b)
                | RKind::Float(b)
                | RKind::SintFx(b)
                | RKind::UintFx(b) => b as usize / 8,
                _ => 1,
            };
            if matches!(k, RKind::SintFx(_) | RKind::UintFx(_)) {
                o.extend_from_slice(&a.filler[16..16 + 4 + bytes]);
            } else if matches!(k, RKind::Float(_)) && a.flags & 2 != 0 && a.filler[27] & 1 != 0 {
                // a sender that sets FIXP on a float and really writes quantization and offset in front of the value
                // (the format defines fixed point for integers only; whatever a parser makes of it must be stable)
                o.extend_from_slice(&a.filler[16..16 + 4 + bytes.max(4)]);
            }
            o.extend_from_slice(&a.filler[..bytes]);
        }
    }
}

/// A whole message as wire-level choices.
#[derive(Debug, Clone)]
struct WMsg {
    storage: Option<(Vec<u8>, bool, Vec<u8>, Vec<u8>)>, // junk, pattern intact, 8 time bytes, id
    htyp: u8,
    mcnt: u8,
    ecu: Vec<u8>,
    nums: [u32; 2],
    msin: u8,
    noar: u8,
    ids: (Vec<u8>, Vec<u8>),
    args: Vec<WArg>,
    trailing: Vec<u8>,
    len_delta: i32,
    len_abs: Option<u16>,
    suffix: Vec<u8>,
    truncate: Option<u16>,
    flip: Option<(u16, u8)>,
}
fn wmsg(with_storage: bool) -> BoxedStrategy<WMsg> {
    let storage = if with_storage {
        (
            prop_oneof![7 => Just(vec![]), 3 => vec(prop::sample::select(vec![b'D', b'L', b'T', 1u8, 0, 9]), 0..20)],
            prop::bool::weighted(0.95),
            vec(any::<u8>(), 8),
            id_bytes(),
        )
            .prop_map(Some)
            .boxed()
    } else {
        Just(None).boxed()
    };
    (
        storage,
        (
            any::<u8>(),
            prop::bool::weighted(0.7),
            any::<u8>(),
            id_bytes(),
            any::<[u32; 2]>(),
        ),
        (
            any::<u8>(),
            prop_oneof![6 => Just(Some(true)), 2 => Just(Some(false)), 2 => Just(None)],
            prop_oneof![9 => 0u8..4, 1 => any::<u8>()],
            id_bytes(),
            id_bytes(),
        ),
        (
            vec(warg(), 0..5),
            prop::bool::weighted(0.85),
            prop_oneof![9 => Just(vec![]), 1 => vec(any::<u8>(), 0..4)],
            vec(any::<u8>(), 0..12),
        ),
        (
            prop_oneof![17 => Just(0i32), 3 => -4i32..=4],
            prop_oneof![49 => Just(None), 1 => (0u16..20).prop_map(Some)],
            prop_oneof![1 => Just(vec![]), 1 => vec(any::<u8>(), 0..30)],
            prop_oneof![17 => Just(None), 3 => any::<u16>().prop_map(Some)],
            prop_oneof![9 => Just(None), 1 => (any::<u16>(), 0u8..8).prop_map(Some)],
        ),
    )
        .prop_map(
            |(
                storage,
                (htyp, ueh, mcnt, ecu, nums),
                (msin, vb, noar, apid, ctid),
                (args, noar_matches, trailing, nv),
                (len_delta, len_abs, suffix, truncate, flip),
            )| {
                let htyp = if ueh { htyp | UEH } else { htyp };
                let msin = match vb {
                    Some(true) => msin | 1,
                    Some(false) => msin & !1,
                    None => msin,
                };
                let verbose = htyp & UEH != 0 && msin & 1 != 0;
                let mut args = args;
                if verbose && noar_matches {
                    // NOAR arguments follow (the common case); otherwise the count is off
                    while args.len() > noar as usize {
                        args.pop();
                    }
                }
                let noar = if verbose && noar_matches {
                    args.len() as u8
                } else {
                    noar
                };
                WMsg {
                    storage,
                    htyp,
                    mcnt,
                    ecu,
                    nums,
                    msin,
                    noar,
                    ids: (apid, ctid),
                    args: if verbose { args } else { vec![] },
                    trailing: if verbose { trailing } else { nv },
                    len_delta,
                    len_abs,
                    suffix,
                    truncate,
                    flip,
                }
            },
        )
        .boxed()
}
fn render_wmsg(w: &WMsg) -> Vec<u8> {
    let mut out = vec![];
    if let Some((junk, intact, time, id)) = &w.storage {
        out.extend_from_slice(junk);
        if *intact {
            out.extend_from_slice(b"DLT\x01");
        } else {
            out.extend_from_slice(&[b'D', b'L', time[0] | 0x40, 1]);
        }
        out.extend_from_slice(time);
        out.extend_from_slice(id);
    }
    let be = w.htyp & MSBF != 0;
    let mut m = vec![w.htyp, w.mcnt, 0, 0];
    if w.htyp & WEID != 0 {
        m.extend_from_slice(&w.ecu);
    }
    if w.htyp & WSID != 0 {
        m.extend_from_slice(&w.nums[0].to_be_bytes());
    }
    if w.htyp & WTMS != 0 {
        m.extend_from_slice(&w.nums[1].to_be_bytes());
    }
    if w.htyp & UEH != 0 {
        m.push(w.msin);
        m.push(w.noar);
        m.extend_from_slice(&w.ids.0);
        m.extend_from_slice(&w.ids.1);
    }
    for a in &w.args {
        render_arg(a, be, &mut m);
    }
    m.extend_from_slice(&w.trailing);
    let len = match w.len_abs {
        Some(l) => l as i64,
        None => m.len() as i64 + w.len_delta as i64,
    }
    .clamp(0, 65535) as u16;
    m[2..4].copy_from_slice(&len.to_be_bytes());
    out.extend_from_slice(&m);
    out.extend_from_slice(&w.suffix);
    if let Some(t) = w.truncate {
        let k = idx(t, out.len());
        out.truncate(k);
    }
    if let Some((p, bit)) = w.flip {
        if !out.is_empty() {
            let k = idx(p, out.len() - 1);
            out[k] ^= 1 << bit;
        }
    }
    out
}

/// mutation operators applied to a canonical encoding
#[derive(Debug, Clone)]
enum Mutation {
    BitFlip(u16, u8),
    SetByte(u16, u8),
    AddLen(i32),
    AddInnerLen(u16, i32),
    SetField(u8, u8), // 0 NOAR, 1 MSIN, 2 HTYP
    Truncate(u16),
    DupSlice(u16, u16),
    Insert(u16, Vec<u8>),
    Splice(u16, Vec<u8>),
    DropSlice(u16, u16),
}
fn mutation() -> BoxedStrategy<Mutation> {
    let junk = prop_oneof![
        vec(any::<u8>(), 1..8),
        prop::sample::select(vec![
            b"D".to_vec(),
            b"DL".to_vec(),
            b"DLT".to_vec(),
            b"DLT\x01".to_vec()
        ]),
    ];
    prop_oneof![
        4 => (any::<u16>(), 0u8..8).prop_map(|(p, b)| Mutation::BitFlip(p, b)),
        3 => (any::<u16>(), any::<u8>()).prop_map(|(p, b)| Mutation::SetByte(p, b)),
        4 => prop_oneof![(-20i32..=20), prop::sample::select(vec![-65535i32, 65535, 256, -256, 1, -1])].prop_map(Mutation::AddLen),
        4 => (any::<u16>(), prop_oneof![(-6i32..=6), prop::sample::select(vec![255i32, 256, -256, 65535, 32768])]).prop_map(|(w, d)| Mutation::AddInnerLen(w, d)),
        3 => (0u8..3, any::<u8>()).prop_map(|(f, v)| Mutation::SetField(f, v)),
        3 => any::<u16>().prop_map(Mutation::Truncate),
        1 => (any::<u16>(), any::<u16>()).prop_map(|(a, b)| Mutation::DupSlice(a, b)),
        2 => (any::<u16>(), junk).prop_map(|(p, j)| Mutation::Insert(p, j)),
        1 => (any::<u16>(), g::message(g::MsgParams { large: false, ..Default::default() })).prop_map(|(p, m)| Mutation::Splice(p, refcodec::encode(&m))),
        1 => (any::<u16>(), any::<u16>()).prop_map(|(a, b)| Mutation::DropSlice(a, b)),
    ]
    .boxed()
}
fn mutate(m: &RMsg, muts: &[Mutation]) -> Vec<u8> {
    let (mut b, map) = refcodec::encode_with_map(m);
    let base = if m.storage.is_some() { 16 } else { 0 };
    for mu in muts {
        match mu {
            Mutation::BitFlip(p, bit) => {
                if !b.is_empty() {
                    let k = idx(*p, b.len() - 1);
                    b[k] ^= 1 << bit;
                }
            }
            Mutation::SetByte(p, v) => {
                if !b.is_empty() {
                    let k = idx(*p, b.len() - 1);
                    b[k] = *v;
                }
            }
            Mutation::AddLen(d) => {
                if b.len() >= base + 4 {
                    let l = u16::from_be_bytes([b[base + 2], b[base + 3]]) as i64 + *d as i64;
                    let l = l.rem_euclid(65536) as u16;
                    b[base + 2..base + 4].copy_from_slice(&l.to_be_bytes());
                }
            }
            Mutation::AddInnerLen(which, d) => {
                let prefixes: Vec<_> = map
                    .iter()
                    .filter(|f| f.role == Role::LenPrefix && f.end <= b.len())
                    .collect();
                if !prefixes.is_empty() {
                    let f = prefixes[idx(*which, prefixes.len() - 1)];
                    let be = m.big_endian();
                    let cur = if be {
                        u16::from_be_bytes([b[f.start], b[f.start + 1]])
                    } else {
                        u16::from_le_bytes([b[f.start], b[f.start + 1]])
                    };
                    let l = (cur as i64 + *d as i64).rem_euclid(65536) as u16;
                    let e = if be { l.to_be_bytes() } else { l.to_le_bytes() };
                    b[f.start..f.start + 2].copy_from_slice(&e);
                }
            }
            Mutation::SetField(which, v) => {
                let role = [Role::Noar, Role::Msin, Role::Htyp][*which as usize % 3];
                if let Some(f) = map.iter().find(|f| f.role == role) {
                    if f.start < b.len() {
                        b[f.start] = *v;
                    }
                }
            }
            Mutation::Truncate(p) => {
                let k = idx(*p, b.len());
                b.truncate(k);
            }
            Mutation::DupSlice(x, y) => {
                let (i, j) = (idx(*x, b.len()), idx(*y, b.len()));
                let (i, j) = (i.min(j), i.max(j).min(i.min(j) + 64));
                let s = b[i..j].to_vec();
                b.splice(j..j, s);
            }
            Mutation::DropSlice(x, y) => {
                let (i, j) = (idx(*x, b.len()), idx(*y, b.len()));
                let (i, j) = (i.min(j), i.max(j).min(i.min(j) + 16));
                b.drain(i..j);
            }
            Mutation::Insert(p, j) => {
                let k = idx(*p, b.len());
                b.splice(k..k, j.iter().cloned());
            }
            Mutation::Splice(p, other) => {
                let k = idx(*p, b.len());
                b.truncate(k);
                b.extend_from_slice(other);
            }
        }
    }
    b
}

/// inputs of at least 64 KiB + 16
fn large(with_storage: bool) -> BoxedStrategy<Vec<u8>> {
    let st = if with_storage {
        g::StorageMode::Always
    } else {
        g::StorageMode::Never
    };
    prop_oneof![
        // one maximal message + tail
        2 => (g::message(g::MsgParams { storage: st, ..Default::default() }), any::<u64>(), 0usize..200, 0u8..6).prop_map(|(mut m, s, l, a)| {
            // stretch non-verbose / control payloads to the 16-bit limit
            let hdr = m.headers_len();
            if let RPayload::NonVerbose(_, d) | RPayload::Control(_, d) = &mut m.payload {
                d.clear();
            }
            let pl = refcodec::payload_len(&m);
            if let RPayload::NonVerbose(_, d) | RPayload::Control(_, d) = &mut m.payload {
                d.extend(expand_bytes(s, 65535 - hdr - pl, a));
            }
            m.len = (hdr + refcodec::payload_len(&m)).min(65535) as u16;
            let mut b = refcodec::encode(&m);
            b.extend(expand_bytes(s ^ 1, 16 + l, a));
            b
        }),
        // a small verbose header followed by > 64 KiB of non-NUL bytes (declared lengths lie)
        2 => (any::<u8>(), any::<u8>(), 0u16..40, prop::sample::select(vec![0x0000_0200u32, 0x0000_0400, 0x0000_0a00, 0x0000_0010, 0x0000_0023, 0x0000_0c00]), prop_oneof![2 => Just(65535u16), 1 => Just(65534u16), 1 => Just(65533u16), 2 => any::<u16>()], any::<u64>(), 70_000usize..70_400)
            .prop_map(move |(htyp, noar, extra, word, declared, s, l)| {
                let htyp = htyp | UEH;
                let be = htyp & MSBF != 0;
                let mut b = vec![];
                if with_storage {
                    b.extend_from_slice(b"DLT\x01\0\0\0\0\0\0\0\0ECU\0");
                }
                let start = b.len();
                b.extend_from_slice(&[htyp, 0, 0, 0]);
                b.extend(std::iter::repeat(b'A').take(std_header_len(htyp) - 4));
                b.extend_from_slice(&[0x41, noar.max(1)]);
                b.extend_from_slice(b"APP\0CTX\0");
                let len = (b.len() - start) as u16 + extra;
                b[start + 2..start + 4].copy_from_slice(&len.to_be_bytes());
                b.extend_from_slice(&if be { word.to_be_bytes() } else { word.to_le_bytes() });
                b.extend_from_slice(&if be { declared.to_be_bytes() } else { declared.to_le_bytes() });
                let mut fill = expand_bytes(s, l, 2);
                for x in fill.iter_mut() {
                    if *x == 0 {
                        *x = b'x';
                    }
                }
                b.extend(fill);
                b
            }),
        // many messages
        1 => (vec(g::message(g::MsgParams { storage: st, large: false, ..Default::default() }), 1..4), any::<u64>(), 65_600usize..66_000).prop_map(|(ms, s, l)| {
            let mut b = vec![];
            for m in &ms {
                b.extend(refcodec::encode(m));
            }
            b.extend(expand_bytes(s, l, 1));
            b
        }),
    ]
    .boxed()
}

/// inputs of more than a megabyte in ONE slice (a memory-mapped trace file): many large messages back to back, or —
/// storage mode — more than a megabyte of pattern-free junk in front of a message
pub fn huge(with_storage: bool) -> BoxedStrategy<Vec<u8>> {
    let st = if with_storage {
        g::StorageMode::Always
    } else {
        g::StorageMode::Never
    };
    let stretched = move || {
        (
            g::message(g::MsgParams {
                storage: st,
                large: false,
                ..Default::default()
            }),
            any::<u64>(),
            30_000usize..65_000,
        )
            .prop_map(|(mut m, s, want)| {
                let hdr = m.headers_len();
                let used = refcodec::payload_len(&m);
                match &mut m.payload {
                    RPayload::NonVerbose(_, d) | RPayload::Control(_, d) => {
                        let room = 65535 - hdr - 5;
                        d.extend(expand_bytes(s, want.min(room).saturating_sub(d.len()), 1));
                    }
                    RPayload::Verbose(args) => {
                        // a raw argument carries the bulk (NOAR stays <= 255: small messages have < 6 arguments)
                        let room = (65535 - hdr).saturating_sub(used + 6);
                        args.push(RArg {
                            ty: RType {
                                kind: RKind::Raw,
                                vari: false,
                                trai: false,
                                scod: 0,
                            },
                            name: None,
                            unit: None,
                            fixp: None,
                            val: RVal::Raw(expand_bytes(s, want.min(room), 1)),
                        });
                    }
                }
                if let (Some(e), RPayload::Verbose(args)) = (&mut m.ext, &m.payload) {
                    e.noar = args.len() as u8;
                }
                m.len = (hdr + refcodec::payload_len(&m)) as u16;
                refcodec::encode(&m)
            })
    };
    let many = (
        vec(stretched(), 2..5),
        1_100_000usize..2_600_000,
        vec(any::<u8>(), 0..20),
    )
        .prop_map(|(ms, total, tail)| {
            let mut b = Vec::with_capacity(total + 70_000);
            let mut i = 0;
            while b.len() < total {
                b.extend_from_slice(&ms[i % ms.len()]);
                i += 1;
            }
            b.extend(tail);
            b
        });
    if !with_storage {
        return many.boxed();
    }
    let junk_first = (
        any::<u64>(),
        1_048_000usize..2_600_000,
        1u8..6,
        g::message(g::MsgParams {
            storage: g::StorageMode::Always,
            large: false,
            ..Default::default()
        }),
        g::suffix(),
    )
        .prop_map(|(s, l, a, m, sfx)| {
            // (junk kept free of the pattern)
            let mut b = crate::props::c06::scrub(expand_bytes(s, l, a));
            b.extend(refcodec::encode(&m));
            b.extend(sfx);
            b
        });
    prop_oneof![2 => many, 1 => junk_first].boxed()
}

/// well-formed messages of every size (also exactly 65535 bytes) in which some texts (names, units, strings) fill
/// their announced size without the terminating NUL — what senders that do not count the terminator emit
pub fn unterminated(with_storage: bool) -> BoxedStrategy<Vec<u8>> {
    let st = if with_storage { g::StorageMode::Always } else { g::StorageMode::Never };
    (g::message(g::MsgParams { storage: st, ..Default::default() }), any::<u64>(), g::suffix())
        .prop_map(|(m, sel, sfx)| {
            let (mut b, map) = refcodec::encode_with_map(&m);
            let mut k = 0u32;
            for f in map.iter().filter(|f| matches!(f.role, refcodec::Role::Text)) {
                if f.end > f.start && b[f.end - 1] == 0 {
                    // the last text always, the others by the selector bits
                    if (sel >> (k % 64)) & 1 == 1 {
                        b[f.end - 1] = b'x';
                    }
                    k += 1;
                }
            }
            if let Some(f) = map.iter().filter(|f| matches!(f.role, refcodec::Role::Text)).last() {
                if f.end > f.start && b[f.end - 1] == 0 && sel & (1 << 63) != 0 {
                    b[f.end - 1] = b'x';
                }
            }
            b.extend(sfx);
            b
        })
        .boxed()
}

/// periodic inputs: one short unit repeated thousands of times (20 KB .. 1.2 MB) — a zero-filled or otherwise regular
/// region of a trace file: storage markers followed by blank or low-entropy bytes, a small (possibly damaged) record
/// over and over, a few arbitrary bytes over and over
pub fn periodic(with_storage: bool) -> BoxedStrategy<Vec<u8>> {
    let unit = prop_oneof![
        3 => (0usize..48, prop::bool::weighted(0.6), any::<u64>(), 1u8..4).prop_map(|(k, zeros, s, a)| {
            let mut u = b"DLT\x01".to_vec();
            u.extend(if zeros { vec![0u8; k] } else { expand_bytes(s, k, a) });
            u
        }),
        2 => hostile_small(with_storage).prop_filter("non-empty unit", |u| !u.is_empty() && u.len() < 400),
        1 => vec(any::<u8>(), 1..12),
    ];
    (unit, 20_000usize..1_200_000, vec(any::<u8>(), 0..24), prop_oneof![2 => Just(None), 1 => hostile_small(with_storage).prop_map(Some)])
        .prop_map(|(u, total, tail, last)| {
            let mut b = Vec::with_capacity(total + 1000);
            while b.len() < total {
                b.extend_from_slice(&u);
            }
            if let Some(l) = last {
                b.extend(l);
            }
            b.extend(tail);
            b
        })
        .boxed()
}

/// Byte strings for the decode-side properties, for a given storage mode of the *generator*
/// (the checks parse every buffer in both modes anyway).
pub fn hostile(with_storage: bool) -> BoxedStrategy<Vec<u8>> {
    let st = if with_storage {
        g::StorageMode::Always
    } else {
        g::StorageMode::Never
    };
    prop_oneof![
        300 => (g::message(g::MsgParams { storage: st, ..Default::default() }), g::suffix()).prop_map(|(m, s)| {
            let mut b = refcodec::encode(&m);
            b.extend(s);
            b
        }),
        300 => wmsg(with_storage).prop_map(|w| render_wmsg(&w)),
        300 => (g::message(g::MsgParams { storage: st, large: false, ..Default::default() }), vec(mutation(), 1..4), g::suffix()).prop_map(|(m, mu, s)| {
            let mut b = mutate(&m, &mu);
            b.extend(s);
            b
        }),
        80 => prop_oneof![
            vec(any::<u8>(), 0..300),
            vec(prop::sample::select(vec![b'D', b'L', b'T', 1u8, 0, 0xFF, 0x35, 0x41]), 0..120),
            (any::<u64>(), 0usize..300, 0u8..6).prop_map(|(s, l, a)| expand_bytes(s, l, a)),
        ],
        20 => large(with_storage),
        1 => huge(with_storage),
        4 => periodic(with_storage),
        30 => unterminated(with_storage),
    ]
    .boxed()
}

/// hostile inputs without the expensive > 64 KiB class
pub fn hostile_small(with_storage: bool) -> BoxedStrategy<Vec<u8>> {
    let st = if with_storage {
        g::StorageMode::Always
    } else {
        g::StorageMode::Never
    };
    prop_oneof![
        25 => (g::message(g::MsgParams { storage: st, large: false, ..Default::default() }), g::suffix()).prop_map(|(m, s)| {
            let mut b = refcodec::encode(&m);
            b.extend(s);
            b
        }),
        35 => wmsg(with_storage).prop_map(|w| render_wmsg(&w)),
        30 => (g::message(g::MsgParams { storage: st, large: false, ..Default::default() }), vec(mutation(), 1..4), g::suffix()).prop_map(|(m, mu, s)| {
            let mut b = mutate(&m, &mu);
            b.extend(s);
            b
        }),
        10 => prop_oneof![
            vec(any::<u8>(), 0..300),
            vec(prop::sample::select(vec![b'D', b'L', b'T', 1u8, 0, 0xFF, 0x35, 0x41]), 0..120),
        ],
    ]
    .boxed()
}
