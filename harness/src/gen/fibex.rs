//! FIBEX models and document layouts (DESIGN.md 4/C11): an abstract model, a layout (partition into
//! files, element order, child order, prefixes, reference style, noise), a renderer to XML text and
//! the independent assembly of the expected result.
use dlt_core::dlt::{FloatWidth, StringCoding, TypeInfo, TypeInfoKind, TypeLength};
use dlt_core::fibex::{FibexMetadata, FrameMetadata, FrameMetadataIdentification, PduMetadata};
use proptest::collection::vec;
use proptest::prelude::*;
use serde::{Deserialize, Serialize};
use std::collections::HashMap;

#[derive(Debug, Clone, Hash, PartialEq, Eq, Serialize, Deserialize)]
pub enum Desc {
    Absent,
    /// `<DESC></DESC>`
    Empty,
    /// `<DESC/>`
    EmptyTag,
    Text(String),
    /// `<DESC><b>..</b> text</DESC>`: the description starts with child markup (read as "no description")
    Markup(String),
}
#[derive(Debug, Clone, Hash, PartialEq, Eq, Serialize, Deserialize)]
pub struct Pdu {
    pub id: String,
    pub short_name: Option<String>,
    pub desc: Desc,
    pub byte_length: u32,
    /// (sequence number, signal reference), ascending distinct sequence numbers
    pub signals: Vec<(u32, String)>,
}
#[derive(Debug, Clone, Hash, PartialEq, Eq, Serialize, Deserialize)]
pub struct Ext {
    pub message_type: Option<String>,
    pub message_info: Option<String>,
    pub application_id: Option<String>,
    pub context_id: Option<String>,
}
#[derive(Debug, Clone, Hash, PartialEq, Eq, Serialize, Deserialize)]
pub struct Frame {
    pub id: String,
    pub short_name: String,
    pub byte_length: u32,
    /// (sequence number, PDU reference), ascending distinct sequence numbers
    pub pdus: Vec<(u32, String)>,
    pub ext: Option<Ext>,
}
#[derive(Debug, Clone, Hash, PartialEq, Eq, Serialize, Deserialize)]
pub struct Model {
    /// (id, base data type) — unique ids
    pub codings: Vec<(String, String)>,
    /// (id, coding ref) — unique ids
    pub signals: Vec<(String, String)>,
    /// vector order = definition order among duplicates
    pub pdus: Vec<Pdu>,
    pub frames: Vec<Frame>,
}
impl Model {
    pub fn elements(&self) -> usize {
        self.codings.len() + self.signals.len() + self.pdus.len() + self.frames.len()
    }
}

#[derive(Debug, Clone, Hash, PartialEq, Eq, Serialize, Deserialize)]
pub struct Layout {
    pub files: u8,
    /// per element (codings, signals, pdus, frames flattened): (file, sort key)
    pub assign: Vec<(u8, u16)>,
    /// shuffle keys for children (signal / PDU instances), consumed round robin
    pub child_keys: Vec<u16>,
    /// 0 fx:/ho:, 1 none, 2 other prefixes, 3 mixed
    pub prefix_style: u8,
    /// references written as start/end tag pairs instead of empty elements
    pub refs_as_pairs: bool,
    /// 0 compact, 1 indented, 2 indented + comments + unrelated elements
    pub noise: u8,
    pub ecu_block: bool,
    /// absent optional text elements that are not part of a key (frame MESSAGE_TYPE / MESSAGE_INFO, PDU SHORT-NAME) are
    /// written as empty-element tags (`<MESSAGE_INFO/>`) instead of being left out
    #[serde(default)]
    pub empty_tags: bool,
    /// further attributes around ID / ID-REF (names that end like them: OID, UUID, OID-REF), 0 = none, 1 = in front,
    /// 2 = behind, 3 = both; bit 2: the attribute behind ends in non-ASCII text; bit 3: the file starts with a byte order mark
    #[serde(default)]
    pub extra_attrs: u8,
    /// documentation (`DESC`) on elements whose description is not part of the model: bit 0 codings, bit 1 signals,
    /// bit 2 frames, bit 3 project and ECU; bit 4: codings also carry a PHYSICAL-TYPE next to their CODED-TYPE; bit 5: instance ids are spelled like the element they refer to
    #[serde(default)]
    pub foreign_desc: u8,
}

// ------------------------------------------------------------------------------------------------
// type vocabulary, written from the statement / the FIBEX DLT conventions

fn ti(kind: TypeInfoKind, coding: StringCoding) -> TypeInfo {
    TypeInfo {
        kind,
        coding,
        has_variable_info: false,
        has_trace_info: false,
    }
}
pub const STANDARD_SIGNALS: [&str; 16] = [
    "S_BOOL",
    "S_SINT8",
    "S_UINT8",
    "S_SINT16",
    "S_UINT16",
    "S_SINT32",
    "S_UINT32",
    "S_SINT64",
    "S_UINT64",
    "S_FLOA16",
    "S_FLOA32",
    "S_FLOA64",
    "S_STRG_ASCII",
    "S_STRG_UTF8",
    "S_RAWD",
    "S_RAW",
];
pub const BASE_TYPES: [&str; 16] = [
    "A_UINT8",
    "A_INT8",
    "A_SINT8",
    "A_UINT16",
    "A_INT16",
    "A_SINT16",
    "A_UINT32",
    "A_INT32",
    "A_SINT32",
    "A_UINT64",
    "A_INT64",
    "A_SINT64",
    "A_FLOAT32",
    "A_FLOAT64",
    "A_ASCIISTRING",
    "A_UNICODE2STRING",
];
pub fn standard_type(name: &str) -> Option<Option<TypeInfo>> {
    use TypeInfoKind::*;
    use TypeLength::*;
    let a = StringCoding::ASCII;
    Some(Some(match name {
        "S_BOOL" => ti(Bool, a),
        "S_SINT8" => ti(Signed(BitLength8), a),
        "S_UINT8" => ti(Unsigned(BitLength8), a),
        "S_SINT16" => ti(Signed(BitLength16), a),
        "S_UINT16" => ti(Unsigned(BitLength16), a),
        "S_SINT32" => ti(Signed(BitLength32), a),
        "S_UINT32" => ti(Unsigned(BitLength32), a),
        "S_SINT64" => ti(Signed(BitLength64), a),
        "S_UINT64" => ti(Unsigned(BitLength64), a),
        "S_FLOA16" => return Some(None),
        "S_FLOA32" => ti(Float(FloatWidth::Width32), a),
        "S_FLOA64" => ti(Float(FloatWidth::Width64), a),
        "S_STRG_ASCII" => ti(StringType, a),
        "S_STRG_UTF8" => ti(StringType, StringCoding::UTF8),
        "S_RAWD" | "S_RAW" => ti(Raw, a),
        _ => return None,
    }))
}
pub fn base_type(name: &str) -> Option<TypeInfo> {
    use TypeInfoKind::*;
    use TypeLength::*;
    let a = StringCoding::ASCII;
    Some(match name {
        "A_UINT8" => ti(Unsigned(BitLength8), a),
        "A_INT8" | "A_SINT8" => ti(Signed(BitLength8), a),
        "A_UINT16" => ti(Unsigned(BitLength16), a),
        "A_INT16" | "A_SINT16" => ti(Signed(BitLength16), a),
        "A_UINT32" => ti(Unsigned(BitLength32), a),
        "A_INT32" | "A_SINT32" => ti(Signed(BitLength32), a),
        "A_UINT64" => ti(Unsigned(BitLength64), a),
        "A_INT64" | "A_SINT64" => ti(Signed(BitLength64), a),
        "A_FLOAT32" => ti(Float(FloatWidth::Width32), a),
        "A_FLOAT64" => ti(Float(FloatWidth::Width64), a),
        "A_ASCIISTRING" => ti(StringType, a),
        "A_UNICODE2STRING" => ti(StringType, StringCoding::UTF8),
        _ => return None,
    })
}

/// The model a loader must return for `m` (None = loading must fail): first definition of a PDU /
/// frame id wins, children ordered by sequence number, unknown signal references skipped, a
/// reference to an unknown PDU makes loading fail.
pub fn expected(m: &Model) -> Option<FibexMetadata> {
    let codings: HashMap<&str, &str> = m
        .codings
        .iter()
        .map(|(a, b)| (a.as_str(), b.as_str()))
        .collect();
    let signals: HashMap<&str, &str> = m
        .signals
        .iter()
        .map(|(a, b)| (a.as_str(), b.as_str()))
        .collect();
    let type_of = |r: &str| -> Option<TypeInfo> {
        match standard_type(r) {
            Some(t) => t,
            None => signals
                .get(r)
                .and_then(|c| codings.get(c))
                .and_then(|b| base_type(b)),
        }
    };
    let mut pdus: HashMap<&str, PduMetadata> = HashMap::new();
    for p in &m.pdus {
        pdus.entry(p.id.as_str()).or_insert_with(|| {
            let mut s = p.signals.clone();
            s.sort_by_key(|x| x.0);
            PduMetadata {
                description: match &p.desc {
                    Desc::Text(t) => Some(t.clone()),
                    _ => None,
                },
                signal_types: s.iter().filter_map(|(_, r)| type_of(r)).collect(),
            }
        });
    }
    let mut frame_map = HashMap::new();
    let mut frame_map_with_key = HashMap::new();
    for f in &m.frames {
        let mut refs = f.pdus.clone();
        refs.sort_by_key(|x| x.0);
        let mut list = vec![];
        for (_, r) in &refs {
            list.push(pdus.get(r.as_str())?.clone());
        }
        let e = f.ext.clone().unwrap_or(Ext {
            message_type: None,
            message_info: None,
            application_id: None,
            context_id: None,
        });
        let fm = FrameMetadata {
            short_name: f.short_name.clone(),
            pdus: list,
            application_id: e.application_id.clone(),
            context_id: e.context_id.clone(),
            message_type: e.message_type.clone(),
            message_info: e.message_info.clone(),
        };
        if let (Some(c), Some(a)) = (&e.context_id, &e.application_id) {
            frame_map_with_key
                .entry(FrameMetadataIdentification {
                    context_id: c.clone(),
                    app_id: a.clone(),
                    frame_id: f.id.clone(),
                })
                .or_insert_with(|| fm.clone());
        }
        frame_map.entry(f.id.clone()).or_insert(fm);
    }
    Some(FibexMetadata {
        frame_map_with_key,
        frame_map,
    })
}

// ------------------------------------------------------------------------------------------------
// rendering

pub fn esc_text(s: &str) -> String {
    s.replace('&', "&amp;")
        .replace('<', "&lt;")
        .replace('>', "&gt;")
}
pub fn esc_attr(s: &str) -> String {
    esc_text(s).replace('"', "&quot;")
}

struct Style {
    fx: &'static str,
    ho: &'static str,
    pairs: bool,
    noise: u8,
}
struct W {
    s: String,
    depth: usize,
    noise: u8,
    counter: u32,
    extra_attrs: u8,
}
impl W {
    fn nl(&mut self) {
        if self.noise >= 1 {
            self.s.push('\n');
            for _ in 0..self.depth {
                self.s.push_str("    ");
            }
        }
    }
    fn noise(&mut self) {
        self.counter += 1;
        if self.noise >= 2 {
            match self.counter % 5 {
                0 => {
                    self.nl();
                    self.s
                        .push_str("<!-- a comment with <fx:PDU ID=\"X\"> inside -->");
                }
                2 => {
                    self.nl();
                    self.s.push_str(
                        "<fx:UNRELATED attr=\"1\"><ho:NOTE>text</ho:NOTE></fx:UNRELATED>",
                    );
                }
                3 => {
                    self.nl();
                    self.s.push_str("<EMPTY-UNRELATED/>");
                }
                _ => {}
            }
        }
    }
    fn open(&mut self, tag: &str, attrs: &str) {
        self.nl();
        self.s.push_str(&format!("<{}{}>", tag, attrs));
        self.depth += 1;
    }
    fn close(&mut self, tag: &str) {
        self.depth -= 1;
        self.nl();
        self.s.push_str(&format!("</{}>", tag));
    }
    fn leaf(&mut self, tag: &str, text: &str) {
        self.nl();
        self.s
            .push_str(&format!("<{}>{}</{}>", tag, esc_text(text), tag));
    }
    fn reference(&mut self, tag: &str, target: &str, pairs: bool) {
        self.nl();
        let front = if self.extra_attrs & 1 != 0 {
            " OID-REF=\"elsewhere\""
        } else {
            ""
        };
        let back = if self.extra_attrs & 2 != 0 {
            " DEST=\"X\""
        } else {
            ""
        };
        if pairs {
            self.s.push_str(&format!(
                "<{}{} ID-REF=\"{}\"{}></{}>",
                tag,
                front,
                esc_attr(target),
                back,
                tag
            ));
        } else {
            self.s.push_str(&format!(
                "<{}{} ID-REF=\"{}\"{}/>",
                tag,
                front,
                esc_attr(target),
                back
            ));
        }
    }
}

fn shuffled<T: Clone>(items: &[T], keys: &[u16], at: &mut usize) -> Vec<T> {
    let mut v: Vec<(u16, usize, T)> = items
        .iter()
        .enumerate()
        .map(|(i, x)| {
            let k = if keys.is_empty() {
                0
            } else {
                keys[(*at + i) % keys.len()]
            };
            (k, i, x.clone())
        })
        .collect();
    *at += items.len();
    v.sort_by_key(|x| (x.0, x.1));
    v.into_iter().map(|x| x.2).collect()
}

/// the ID attribute of an id-carrying element, with unrelated attributes around it when the layout asks for them
fn id_attr(l: &Layout, id: &str) -> String {
    let front = if l.extra_attrs & 1 != 0 {
        " OID=\"oid-1\" UUID=\"0000-11\""
    } else {
        ""
    };
    let back = if l.extra_attrs & 4 != 0 {
        " NOTE=\"Zähler_ü\""
    } else if l.extra_attrs & 2 != 0 {
        " xsi:type=\"fx:OTHER\" SID=\"9\""
    } else {
        ""
    };
    format!("{} ID=\"{}\"{}", front, esc_attr(id), back)
}

enum El<'a> {
    Coding(&'a (String, String)),
    Signal(&'a (String, String)),
    Pdu(&'a Pdu),
    Frame(&'a Frame),
}

/// Render the model into `layout.files` documents (returned in path order).
pub fn render(m: &Model, l: &Layout) -> Vec<String> {
    let files = l.files.clamp(1, 4) as usize;
    let st = match l.prefix_style % 4 {
        0 => Style {
            fx: "fx:",
            ho: "ho:",
            pairs: l.refs_as_pairs,
            noise: l.noise,
        },
        1 => Style {
            fx: "",
            ho: "",
            pairs: l.refs_as_pairs,
            noise: l.noise,
        },
        2 => Style {
            fx: "a:",
            ho: "bb:",
            pairs: l.refs_as_pairs,
            noise: l.noise,
        },
        _ => Style {
            fx: "fx:",
            ho: "",
            pairs: l.refs_as_pairs,
            noise: l.noise,
        },
    };
    // global order of elements: (file, key, original index); duplicates keep their definition order
    let mut els: Vec<El> = vec![];
    els.extend(m.codings.iter().map(El::Coding));
    els.extend(m.signals.iter().map(El::Signal));
    els.extend(m.pdus.iter().map(El::Pdu));
    els.extend(m.frames.iter().map(El::Frame));
    let mut order: Vec<(usize, u16, usize)> = (0..els.len())
        .map(|i| {
            let (f, k) = if l.assign.is_empty() {
                (0, 0)
            } else {
                let (f, k) = l.assign[i % l.assign.len()];
                (f, k.wrapping_add((i / l.assign.len()) as u16 * 7919))
            };
            (f as usize % files, k, i)
        })
        .collect();
    order.sort();
    // fix-up: members of a duplicate group occupy their slots in definition order
    let group_of = |i: usize| -> Option<(u8, &str)> {
        match &els[i] {
            El::Pdu(p) => Some((0, p.id.as_str())),
            El::Frame(f) => Some((1, f.id.as_str())),
            _ => None,
        }
    };
    let mut slots: HashMap<(u8, &str), Vec<usize>> = HashMap::new();
    for (pos, o) in order.iter().enumerate() {
        if let Some(g) = group_of(o.2) {
            slots.entry(g).or_default().push(pos);
        }
    }
    for (_, positions) in slots {
        if positions.len() > 1 {
            let mut members: Vec<usize> = positions.iter().map(|p| order[*p].2).collect();
            members.sort();
            for (p, mem) in positions.iter().zip(members) {
                order[*p].2 = mem;
            }
        }
    }
    let mut docs = vec![];
    let mut child_at = 0usize;
    for file in 0..files {
        let mut w = W {
            s: String::new(),
            depth: 0,
            noise: st.noise,
            counter: file as u32,
            extra_attrs: l.extra_attrs,
        };
        if l.extra_attrs & 8 != 0 {
            w.s.push('\u{feff}'); // byte order mark
        }
        // the XML declaration: usual, version 1.1, a bare major version, without encoding, or none at all
        match (l.child_keys.first().copied().unwrap_or(0) as usize + file) % 11 {
            0 => w.s.push_str("<?xml version=\"1.1\" encoding=\"UTF-8\"?>"),
            1 => w.s.push_str("<?xml version=\"1\"?>"),
            2 => w.s.push_str("<?xml version=\"1.0\"?>"),
            3 => {}
            _ => w.s.push_str("<?xml version=\"1.0\" encoding=\"UTF-8\"?>"),
        }
        let root = format!("{}FIBEX", st.fx);
        w.open(
            &root,
            " xmlns:ho=\"http://www.asam.net/xml\" xmlns:fx=\"http://www.asam.net/xml/fbx\"",
        );
        w.open(&format!("{}PROJECT", st.fx), " ID=\"Project\"");
        w.leaf(&format!("{}SHORT-NAME", st.ho), "ProjectName");
        if l.foreign_desc & 8 != 0 {
            w.leaf(&format!("{}DESC", st.ho), "documentation of the project");
        }
        w.close(&format!("{}PROJECT", st.fx));
        w.open(&format!("{}ELEMENTS", st.fx), "");
        if l.ecu_block && file == 0 {
            w.open(&format!("{}ECUS", st.fx), "");
            w.open(&format!("{}ECU", st.fx), " ID=\"ECU1\"");
            w.leaf(&format!("{}SHORT-NAME", st.ho), "ECU1");
            if l.foreign_desc & 8 != 0 {
                w.leaf(&format!("{}DESC", st.ho), "documentation of the ECU");
            }
            w.open(&format!("{}MANUFACTURER-EXTENSION", st.fx), "");
            w.leaf("SW_VERSION", "unknown");
            w.open("APPLICATIONS", "");
            w.open("APPLICATION", "");
            w.leaf("APPLICATION_ID", "DR");
            w.leaf("APPLICATION_DESCRIPTION", "XYZ");
            w.open("CONTEXTS", "");
            w.open("CONTEXT", "");
            w.leaf("CONTEXT_ID", "TIME");
            w.leaf("CONTEXT_DESCRIPTION", "Description");
            w.close("CONTEXT");
            w.close("CONTEXTS");
            w.close("APPLICATION");
            w.close("APPLICATIONS");
            w.close(&format!("{}MANUFACTURER-EXTENSION", st.fx));
            w.close(&format!("{}ECU", st.fx));
            w.close(&format!("{}ECUS", st.fx));
        }
        for o in order.iter().filter(|o| o.0 == file) {
            w.noise();
            match &els[o.2] {
                El::Coding((id, base)) => {
                    let t = format!("{}CODING", st.fx);
                    w.open(&t, &id_attr(l, id));
                    w.leaf(&format!("{}SHORT-NAME", st.ho), id);
                    if l.foreign_desc & 1 != 0 {
                        w.leaf(
                            &format!("{}DESC", st.ho),
                            &format!("documentation of coding {}", id),
                        );
                    }
                    if l.foreign_desc & 16 != 0 && id.len() % 2 == 0 {
                        // the physical type of a scaled signal, as ASAM exports write it next to the coded type (not part of the model)
                        w.nl();
                        w.s.push_str(&format!("<{h}PHYSICAL-TYPE {h}BASE-DATA-TYPE=\"A_FLOAT64\"/>", h = st.ho));
                    }
                    w.nl();
                    if st.pairs {
                        w.s.push_str(&format!("<{h}CODED-TYPE {h}BASE-DATA-TYPE=\"{}\" CATEGORY=\"STANDARD-LENGTH-TYPE\"></{h}CODED-TYPE>", esc_attr(base), h = st.ho));
                    } else {
                        w.s.push_str(&format!("<{h}CODED-TYPE {h}BASE-DATA-TYPE=\"{}\" CATEGORY=\"STANDARD-LENGTH-TYPE\"/>", esc_attr(base), h = st.ho));
                    }
                    if l.foreign_desc & 16 != 0 && id.len() % 2 == 1 {
                        w.nl();
                        w.s.push_str(&format!("<{h}PHYSICAL-TYPE {h}BASE-DATA-TYPE=\"A_FLOAT64\"></{h}PHYSICAL-TYPE>", h = st.ho));
                    }
                    w.close(&t);
                }
                El::Signal((id, coding)) => {
                    let t = format!("{}SIGNAL", st.fx);
                    w.open(&t, &id_attr(l, id));
                    w.leaf(&format!("{}SHORT-NAME", st.ho), id);
                    if l.foreign_desc & 2 != 0 {
                        w.leaf(
                            &format!("{}DESC", st.ho),
                            &format!("documentation of signal {}", id),
                        );
                    }
                    // CODING-REF is only ever written as an empty element (the form FIBEX tools emit)
                    w.reference(&format!("{}CODING-REF", st.fx), coding, false);
                    w.close(&t);
                }
                El::Pdu(p) => {
                    let t = format!("{}PDU", st.fx);
                    w.open(&t, &id_attr(l, &p.id));
                    if let Some(n) = &p.short_name {
                        w.leaf(&format!("{}SHORT-NAME", st.ho), n);
                    } else if l.empty_tags {
                        w.nl();
                        w.s.push_str(&format!("<{}SHORT-NAME/>", st.ho));
                    }
                    match &p.desc {
                        Desc::Absent => {}
                        Desc::Empty => {
                            w.nl();
                            w.s.push_str(&format!("<{h}DESC></{h}DESC>", h = st.ho));
                        }
                        Desc::EmptyTag => {
                            w.nl();
                            w.s.push_str(&format!("<{h}DESC/>", h = st.ho));
                        }
                        Desc::Text(d) => w.leaf(&format!("{}DESC", st.ho), d),
                        Desc::Markup(d) => {
                            w.nl();
                            w.s.push_str(&format!(
                                "<{}DESC><b>{}</b> and text<br/></{}DESC>",
                                st.ho,
                                esc_text(d),
                                st.ho
                            ));
                        }
                    }
                    w.leaf(&format!("{}BYTE-LENGTH", st.fx), &p.byte_length.to_string());
                    w.leaf(&format!("{}PDU-TYPE", st.fx), "OTHER");
                    if !p.signals.is_empty() {
                        w.open(&format!("{}SIGNAL-INSTANCES", st.fx), "");
                        for (k, (seq, r)) in shuffled(&p.signals, &l.child_keys, &mut child_at)
                            .iter()
                            .enumerate()
                        {
                            let it = format!("{}SIGNAL-INSTANCE", st.fx);
                            let inst = if l.foreign_desc & 32 != 0 { r.clone() } else { format!("SI_{}_{}", p.id, k) };
                            w.open(&it, &id_attr(l, &inst));
                            if k % 2 == 0 {
                                w.leaf(&format!("{}SEQUENCE-NUMBER", st.fx), &seq.to_string());
                                w.reference(&format!("{}SIGNAL-REF", st.fx), r, st.pairs);
                            } else {
                                w.reference(&format!("{}SIGNAL-REF", st.fx), r, st.pairs);
                                w.leaf(&format!("{}SEQUENCE-NUMBER", st.fx), &seq.to_string());
                            }
                            w.close(&it);
                        }
                        w.close(&format!("{}SIGNAL-INSTANCES", st.fx));
                    }
                    w.close(&t);
                }
                El::Frame(f) => {
                    let t = format!("{}FRAME", st.fx);
                    w.open(&t, &id_attr(l, &f.id));
                    w.leaf(&format!("{}SHORT-NAME", st.ho), &f.short_name);
                    if l.foreign_desc & 4 != 0 {
                        w.leaf(
                            &format!("{}DESC", st.ho),
                            &format!("documentation of frame {}", f.id),
                        );
                    }
                    w.leaf(&format!("{}BYTE-LENGTH", st.fx), &f.byte_length.to_string());
                    w.leaf(&format!("{}FRAME-TYPE", st.fx), "OTHER");
                    let ext_first = f.byte_length % 2 == 1;
                    let write_ext = |w: &mut W| {
                        if let Some(e) = &f.ext {
                            let me = format!("{}MANUFACTURER-EXTENSION", st.fx);
                            w.open(&me, "");
                            if let Some(v) = &e.message_type {
                                w.leaf("MESSAGE_TYPE", v);
                            } else if l.empty_tags {
                                w.nl();
                                w.s.push_str("<MESSAGE_TYPE/>");
                            }
                            if let Some(v) = &e.message_info {
                                w.leaf("MESSAGE_INFO", v);
                            } else if l.empty_tags {
                                w.nl();
                                w.s.push_str("<MESSAGE_INFO/>");
                            }
                            if let Some(v) = &e.application_id {
                                w.leaf("APPLICATION_ID", v);
                            }
                            if let Some(v) = &e.context_id {
                                w.leaf("CONTEXT_ID", v);
                            }
                            w.leaf("MESSAGE_SOURCE_FILE", "/some/path/example3.c");
                            w.leaf("MESSAGE_LINE_NUMBER", "66");
                            w.close(&me);
                        }
                    };
                    if ext_first {
                        write_ext(&mut w);
                    }
                    if !f.pdus.is_empty() {
                        w.open(&format!("{}PDU-INSTANCES", st.fx), "");
                        for (k, (seq, r)) in shuffled(&f.pdus, &l.child_keys, &mut child_at)
                            .iter()
                            .enumerate()
                        {
                            let it = format!("{}PDU-INSTANCE", st.fx);
                            // (instance ids: numbered per frame, or — the convention of the crate's sample file — spelled like
                            // the element they refer to, so that they repeat when a PDU is used twice)
                            let inst = if l.foreign_desc & 32 != 0 { r.clone() } else { format!("PI_{}_{}", f.id, k) };
                            w.open(&it, &id_attr(l, &inst));
                            if k % 2 == 0 {
                                w.reference(&format!("{}PDU-REF", st.fx), r, st.pairs);
                                w.leaf(&format!("{}SEQUENCE-NUMBER", st.fx), &seq.to_string());
                            } else {
                                w.leaf(&format!("{}SEQUENCE-NUMBER", st.fx), &seq.to_string());
                                w.reference(&format!("{}PDU-REF", st.fx), r, st.pairs);
                            }
                            w.close(&it);
                        }
                        w.close(&format!("{}PDU-INSTANCES", st.fx));
                    }
                    if !ext_first {
                        write_ext(&mut w);
                    }
                    w.close(&t);
                }
            }
        }
        w.close(&format!("{}ELEMENTS", st.fx));
        w.close(&root);
        w.s.push('\n');
        docs.push(w.s);
    }
    docs
}

// ------------------------------------------------------------------------------------------------
// strategies

fn free_text() -> BoxedStrategy<String> {
    prop_oneof![
        4 => "[A-Za-z0-9_: ]{1,12}",
        2 => prop::sample::select(vec!["timeing: ", "a&b", "x<y", "\"quoted\"", "it's", "ünï€", " lead", "trail ", "a > b", "]]>", "DLT_TYPE_LOG", "DLT_LOG_WARN", "日本", "DLT_LOG", "DLT_TYPE_CONTROL", "DLT_CONTROL", "DLT_TYPE_LOG", "DLT_LOGé", "DLT_LOG_"]).prop_map(|s| s.to_string()),
        // single characters, also the ones text is usually wrapped in
        1 => prop::sample::select(vec!["\"", "'", "(", "[", "{", "%", "x", "é", "-"]).prop_map(|s| s.to_string()),
    ]
    .boxed()
}
fn short_id() -> BoxedStrategy<String> {
    // mostly ids that fit the 4-byte wire field; a FIBEX document may also carry longer ones (kept verbatim by the loader)
    prop::sample::select(vec![
        "APP",
        "CTX1",
        "DR",
        "TIME",
        "A",
        "é1",
        "x&y",
        "APP",
        "CTX1",
        "DR",
        "TIME",
        "MOTÖR",
        "AB€1",
        "LONGAPPID",
        "日本語",
        "APP10",
        "abcé",
    ])
    .prop_map(|s| s.to_string())
    .boxed()
}

/// distinct ascending sequence numbers for `n` children
fn seqs(gaps: &[u8]) -> Vec<u32> {
    let mut v = vec![];
    let mut cur = 0u32;
    for (i, g) in gaps.iter().enumerate() {
        cur += if i == 0 {
            (*g % 3) as u32
        } else {
            1 + (*g % 5) as u32
        };
        v.push(cur);
    }
    v
}

pub fn model() -> BoxedStrategy<Model> {
    // mostly small models; sometimes one with dozens of elements (maps that grow, many duplicates, long instance lists)
    prop_oneof![24 => model_sized(false), 1 => model_sized(true)].boxed()
}
/// models of the usual small size only (for checks that enumerate every truncation offset of the rendered documents)
pub fn model_small() -> BoxedStrategy<Model> {
    model_sized(false)
}
fn model_sized(large: bool) -> BoxedStrategy<Model> {
    // pools of ids
    let n_codings = if large { 0usize..9 } else { 0usize..5 };
    let n_signals = if large { 0usize..9 } else { 0usize..6 };
    let (n_pdus, n_frames, pdu_ids, frame_ids) = if large {
        (10usize..60, 8usize..40, 50u8, 30u32)
    } else {
        (0usize..9, 0usize..6, 7u8, 6u32)
    };
    let (n_sig_inst, n_pdu_inst) = if large {
        (0usize..20, 0usize..24)
    } else {
        (0usize..6, 0usize..7)
    };
    (
        vec(prop_oneof![6 => prop::sample::select(BASE_TYPES.to_vec()).prop_map(|s| s.to_string()), 1 => Just("A_BITFIELD".to_string()), 1 => Just("A_FLOAT16".to_string())], n_codings),
        vec(0u8..8, n_signals),
        vec((0u8..(pdu_ids + 3), prop::option::weighted(0.7, free_text()), prop_oneof![2 => Just(Desc::Absent), 1 => Just(Desc::Empty), 1 => Just(Desc::EmptyTag), 5 => free_text().prop_map(Desc::Text), 1 => free_text().prop_map(Desc::Markup)], 0u32..64, vec((any::<u8>(), 0u8..32), n_sig_inst)), n_pdus),
        vec(
            (
                (prop_oneof![4 => 0u32..frame_ids, 1 => any::<u32>()], prop::bool::weighted(0.85)),
                free_text(),
                0u32..200,
                vec((any::<u8>(), 0u8..64), n_pdu_inst),
                prop::option::weighted(0.8, (prop::option::weighted(0.85, free_text()), prop::option::weighted(0.85, free_text()), prop::option::weighted(0.85, short_id()), prop::option::weighted(0.85, short_id()))),
            ),
            n_frames,
        ),
        prop::bool::weighted(0.08),
    )
        .prop_map(move |(codings, signals, pdus, frames, dangling)| {
            // ids are unique within their kind; sometimes an id of one kind also names something of another kind (a coding
            // called like its own base data type or like a signal, a signal whose coding reference is its own id): the
            // kinds have separate name spaces, so nothing changes for the model
            let collide = codings.len() + signals.len() * 3;
            let codings: Vec<(String, String)> = codings
                .into_iter()
                .enumerate()
                .map(|(i, b)| {
                    let id = match (i, collide % 11) {
                        (0, 1) => b.clone(),
                        (0, 2) => "A_UINT8".to_string(),
                        (1, 3) => "SIG_0".to_string(),
                        _ => format!("CODING_{}", i),
                    };
                    (id, b)
                })
                .collect();
            // custom signal ids: SIG_<i>; sometimes names that begin like the predefined ones (S_SPEED), or an id that is
            // the concatenation of two other ids (with or without a separator)
            let sig_name = move |i: usize| -> String {
                match (i, collide % 7, collide % 13) {
                    (2, 5, _) => "S_SPEED".to_string(),
                    (3, 5, _) => "S_UINT8_SCALED".to_string(),
                    (2, _, 6) => "SIG_0-SIG_1".to_string(),
                    (2, _, 7) => "SIG_0SIG_1".to_string(),
                    (2, _, 8) => "SIG_0_SIG_1".to_string(),
                    (2, _, 9) => "SIG_0,SIG_1".to_string(),
                    _ => format!("SIG_{}", i),
                }
            };
            // signals refer to codings 0..8 (some dangling when there are fewer codings)
            let signals: Vec<(String, String)> = signals
                .into_iter()
                .enumerate()
                .map(|(i, c)| {
                    let r = match (i, collide % 11) {
                        (0, 4) => "SIG_0".to_string(),
                        (1, 5) => "SIG_0".to_string(),
                        (0, 1) | (0, 2) => codings.first().map(|c| c.0.clone()).unwrap_or_else(|| "CODING_0".to_string()),
                        (0, 3) => "SIG_0".to_string(),
                        // a reference to a coding that no file defines, spelled like a base data type
                        (2, 10) => "A_UINT32".to_string(),
                        (3, 10) => "A_FLOAT64".to_string(),
                        _ => format!("CODING_{}", c),
                    };
                    (sig_name(i), r)
                })
                .collect();
            let pdus: Vec<Pdu> = pdus
                .into_iter()
                .map(|(idn, short_name, desc, byte_length, sigs)| {
                    let sq = seqs(&sigs.iter().map(|s| s.0).collect::<Vec<_>>());
                    Pdu {
                        id: format!("PDU_{}", idn % pdu_ids), // duplicates on purpose
                        short_name,
                        desc,
                        byte_length,
                        signals: sigs
                            .iter()
                            .zip(sq)
                            .map(|((_, r), s)| {
                                let name = match *r {
                                    x if (x as usize) < 16 => STANDARD_SIGNALS[x as usize].to_string(),
                                    x if x < 24 => sig_name(x as usize - 16), // custom signal (may not exist)
                                    x if x < 28 => "S_UNKNOWN_THING".to_string(),
                                    _ => "S_FLOA16".to_string(),
                                };
                                (s, name)
                            })
                            .collect(),
                    }
                })
                .collect();
            // when an id is the concatenation of two others, one PDU lists the two and another lists the concatenation
            let mut pdus = pdus;
            if (6..=9).contains(&(collide % 13)) && collide % 7 != 5 && signals.len() >= 3 && pdus.len() >= 2 && pdus[0].id != pdus[1].id {
                pdus[0].signals = vec![(0, "SIG_0".to_string()), (1, "SIG_1".to_string())];
                pdus[1].signals = vec![(0, sig_name(2))];
            }
            let n_pdus = pdus.len();
            let mut frames: Vec<Frame> = frames
                .into_iter()
                .map(|((idn, canonical), short_name, byte_length, refs, ext)| {
                    let sq = seqs(&refs.iter().map(|s| s.0).collect::<Vec<_>>());
                    Frame {
                        // mostly ID_<n>; also names, ids that begin like a numbered one, numbers beyond 32 bits
                        id: if canonical {
                            format!("ID_{}", idn)
                        } else {
                            match idn % 9 {
                                0 => format!("ID_{}x", idn % 40),
                                1 => format!("ID_{}_1", idn % 7),
                                2 => "ID_99999999999".to_string(),
                                _ => format!("FRAME-{}", idn % 4),
                            }
                        },
                        short_name,
                        byte_length,
                        pdus: if n_pdus == 0 { vec![] } else { refs.iter().zip(sq).map(|((_, r), s)| (s, pdus[*r as usize % n_pdus].id.clone())).collect() },
                        ext: ext.map(|(message_type, message_info, application_id, context_id)| Ext { message_type, message_info, application_id, context_id }),
                    }
                })
                .collect();
            // later definitions of a frame id often repeat the application / context ids of an earlier definition of that
            // id (not necessarily the first one): three and more definitions with shared and with different id pairs
            for i in 1..frames.len() {
                let earlier: Vec<usize> = (0..i).filter(|j| frames[*j].id == frames[i].id && frames[*j].ext.is_some()).collect();
                if !earlier.is_empty() && (frames[i].byte_length + i as u32) % 3 == 0 {
                    let from = earlier[(frames[i].byte_length as usize / 3) % earlier.len()];
                    let (a, c) = {
                        let e = frames[from].ext.as_ref().unwrap();
                        (e.application_id.clone(), e.context_id.clone())
                    };
                    if let Some(e) = &mut frames[i].ext {
                        e.application_id = a;
                        e.context_id = c;
                    }
                }
            }
            if dangling {
                if let Some(f) = frames.last_mut() {
                    let s = f.pdus.last().map(|p| p.0 + 1).unwrap_or(0);
                    f.pdus.push((s, "PDU_DOES_NOT_EXIST".to_string()));
                }
            }
            Model { codings, signals, pdus, frames }
        })
        .boxed()
}

pub fn layout() -> BoxedStrategy<Layout> {
    (
        1u8..=4,
        vec((0u8..4, any::<u16>()), 40),
        vec(any::<u16>(), 1..24),
        0u8..4,
        any::<bool>(),
        0u8..3,
        prop::bool::weighted(0.3),
        prop::bool::weighted(0.25),
        prop_oneof![3 => Just(0u8), 1 => 1u8..4, 1 => 4u8..16],
        prop_oneof![2 => Just(0u8), 1 => 1u8..64],
    )
        .prop_map(
            |(
                files,
                assign,
                child_keys,
                prefix_style,
                refs_as_pairs,
                noise,
                ecu_block,
                empty_tags,
                extra_attrs,
                foreign_desc,
            )| Layout {
                files,
                assign,
                child_keys,
                prefix_style,
                refs_as_pairs,
                noise,
                ecu_block,
                empty_tags,
                extra_attrs,
                foreign_desc,
            },
        )
        .boxed()
}

/// the canonical layout: one file, definition order, sample-file style
pub fn plain_layout() -> Layout {
    Layout {
        files: 1,
        assign: vec![],
        child_keys: vec![],
        prefix_style: 0,
        refs_as_pairs: false,
        noise: 1,
        ecu_block: false,
        empty_tags: false,
        extra_attrs: 0,
        foreign_desc: 0,
    }
}
