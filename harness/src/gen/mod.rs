//! proptest strategies (everything random happens inside them, so failures shrink and replay)
pub mod bytes;
pub mod fibex;
pub mod message;
