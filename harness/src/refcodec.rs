//! Independent reference encoder / decoder of the AUTOSAR DLT wire layout.
//!
//! Written from the protocol specification's layout (PRS_Dlt): it has its own byte cursor and shares
//! no code with dlt-core, nom or byteorder.  See DESIGN.md section 3.2 for the rules and the dialect.
use crate::model::*;

#[derive(Debug, Clone, PartialEq)]
pub enum Verdict {
    /// message and number of input bytes consumed (junk + storage header + LEN)
    Msg(Box<RMsg>, usize),
    Incomplete,
    Reject(&'static str),
    /// the buffer is too short *and* the visible length field is already inconsistent: either verdict is fine
    IncompleteOrReject(&'static str),
}

/// A field of an encoded message (byte range + role), used to classify cut points and mutations.
#[derive(Debug, Clone, Copy, PartialEq, Eq)]
pub enum Role {
    Pattern,
    StorageTime,
    Id,
    Htyp,
    Mcnt,
    Len,
    U32Field,
    Msin,
    Noar,
    TypeInfo,
    LenPrefix,
    Text,
    Value,
    Blob,
}
#[derive(Debug, Clone, Copy)]
pub struct Field {
    pub start: usize,
    pub end: usize,
    pub role: Role,
}

struct Out {
    b: Vec<u8>,
    be: bool,
    map: Vec<Field>,
}
impl Out {
    fn mark(&mut self, start: usize, role: Role) {
        let end = self.b.len();
        self.map.push(Field { start, end, role });
    }
    fn raw(&mut self, d: &[u8], role: Role) {
        let s = self.b.len();
        self.b.extend_from_slice(d);
        self.mark(s, role);
    }
    fn u16(&mut self, v: u16, role: Role) {
        let d = if self.be {
            v.to_be_bytes()
        } else {
            v.to_le_bytes()
        };
        self.raw(&d, role);
    }
    fn u32(&mut self, v: u32, role: Role) {
        let d = if self.be {
            v.to_be_bytes()
        } else {
            v.to_le_bytes()
        };
        self.raw(&d, role);
    }
    fn uint(&mut self, v: u128, bits: u8, role: Role) {
        let n = bits as usize / 8;
        let le = v.to_le_bytes();
        let mut d: Vec<u8> = le[..n].to_vec();
        if self.be {
            d.reverse();
        }
        self.raw(&d, role);
    }
    /// fixed-size id: bytes of the text, NUL padded to 4
    fn id(&mut self, s: &str) {
        let mut d = s.as_bytes().to_vec();
        while d.len() < 4 {
            d.push(0);
        }
        self.raw(&d, Role::Id);
    }
    fn text0(&mut self, s: &str) {
        let mut d = s.as_bytes().to_vec();
        d.push(0);
        self.raw(&d, Role::Text);
    }
}

pub fn tyle_of(bits: u8) -> u32 {
    match bits {
        8 => 1,
        16 => 2,
        32 => 3,
        64 => 4,
        _ => 5,
    }
}
/// canonical type-info word of a type description
pub fn type_word(t: &RType) -> u32 {
    let mut w = match t.kind {
        RKind::Bool => 1 << 4,
        RKind::Sint(b) => (1 << 5) | tyle_of(b),
        RKind::Uint(b) => (1 << 6) | tyle_of(b),
        RKind::SintFx(b) => (1 << 5) | (1 << 12) | tyle_of(b),
        RKind::UintFx(b) => (1 << 6) | (1 << 12) | tyle_of(b),
        RKind::Float(b) => (1 << 7) | tyle_of(b),
        RKind::Str => 1 << 9,
        RKind::Raw => 1 << 10,
    };
    if t.vari {
        w |= 1 << 11;
    }
    if t.trai {
        w |= 1 << 13;
    }
    w |= ((t.scod & 7) as u32) << 15;
    w
}

fn encode_arg(o: &mut Out, a: &RArg) {
    o.u32(type_word(&a.ty), Role::TypeInfo);
    let name = a.name.as_deref().unwrap_or("");
    let unit = a.unit.as_deref().unwrap_or("");
    match a.ty.kind {
        RKind::Bool => {
            if a.ty.vari {
                o.u16((name.len() + 1) as u16, Role::LenPrefix);
                o.text0(name);
            }
            let v = if let RVal::Bool(b) = a.val { b } else { 0 };
            o.raw(&[v], Role::Value);
        }
        RKind::Str => {
            let s = if let RVal::Str(s) = &a.val {
                s.as_str()
            } else {
                ""
            };
            o.u16((s.len() + 1) as u16, Role::LenPrefix);
            if a.ty.vari {
                o.u16((name.len() + 1) as u16, Role::LenPrefix);
                o.text0(name);
            }
            o.text0(s);
        }
        RKind::Raw => {
            let empty = vec![];
            let d = if let RVal::Raw(d) = &a.val { d } else { &empty };
            o.u16(d.len() as u16, Role::LenPrefix);
            if a.ty.vari {
                o.u16((name.len() + 1) as u16, Role::LenPrefix);
                o.text0(name);
            }
            o.raw(d, Role::Blob);
        }
        k => {
            if a.ty.vari {
                o.u16((name.len() + 1) as u16, Role::LenPrefix);
                o.u16((unit.len() + 1) as u16, Role::LenPrefix);
                o.text0(name);
                o.text0(unit);
            }
            let bits = match k {
                RKind::Sint(b)
                | RKind::Uint(b)
                | RKind::SintFx(b)
                | RKind::UintFx(b)
                | RKind::Float(b) => b,
                _ => 8,
            };
            if let Some((q, off)) = a.fixp {
                o.u32(q, Role::Value);
                o.uint(off as i128 as u128, bits, Role::Value);
            }
            match &a.val {
                RVal::U(v) => o.uint(*v, bits, Role::Value),
                RVal::I(v) => o.uint(*v as u128, bits, Role::Value),
                RVal::F32(b) => o.u32(*b, Role::Value),
                RVal::F64(b) => o.uint(*b as u128, 64, Role::Value),
                _ => {}
            }
        }
    }
}

pub fn encode_payload(m: &RMsg, o_be: bool) -> (Vec<u8>, Vec<Field>) {
    let mut o = Out {
        b: vec![],
        be: o_be,
        map: vec![],
    };
    match &m.payload {
        RPayload::Verbose(args) => {
            for a in args {
                encode_arg(&mut o, a);
            }
        }
        RPayload::NonVerbose(id, d) => {
            o.u32(*id, Role::Value);
            o.raw(d, Role::Blob);
        }
        RPayload::Control(s, d) => {
            o.raw(&[*s], Role::Value);
            o.raw(d, Role::Blob);
        }
    }
    (o.b, o.map)
}

/// length of the encoded payload
pub fn payload_len(m: &RMsg) -> usize {
    encode_payload(m, m.big_endian()).0.len()
}

/// Encode a message exactly as the layout prescribes (uses `m.len` as given).
pub fn encode_with_map(m: &RMsg) -> (Vec<u8>, Vec<Field>) {
    let mut o = Out {
        b: vec![],
        be: true,
        map: vec![],
    };
    if let Some(s) = &m.storage {
        o.raw(b"DLT\x01", Role::Pattern);
        o.raw(&s.secs.to_le_bytes(), Role::StorageTime);
        o.raw(&s.micros.to_le_bytes(), Role::StorageTime);
        o.id(&s.ecu);
    }
    o.raw(&[m.htyp], Role::Htyp);
    o.raw(&[m.mcnt], Role::Mcnt);
    o.raw(&m.len.to_be_bytes(), Role::Len);
    if m.htyp & WEID != 0 {
        o.id(m.ecu.as_deref().unwrap_or(""));
    }
    if m.htyp & WSID != 0 {
        o.raw(&m.seid.unwrap_or(0).to_be_bytes(), Role::U32Field);
    }
    if m.htyp & WTMS != 0 {
        o.raw(&m.tmsp.unwrap_or(0).to_be_bytes(), Role::U32Field);
    }
    if m.htyp & UEH != 0 {
        let e = m.ext.clone().unwrap_or(RExt {
            msin: 0,
            noar: 0,
            apid: String::new(),
            ctid: String::new(),
        });
        o.raw(&[e.msin], Role::Msin);
        o.raw(&[e.noar], Role::Noar);
        o.id(&e.apid);
        o.id(&e.ctid);
    }
    let base = o.b.len();
    let (p, pmap) = encode_payload(m, m.big_endian());
    o.b.extend_from_slice(&p);
    for f in pmap {
        o.map.push(Field {
            start: f.start + base,
            end: f.end + base,
            role: f.role,
        });
    }
    (o.b, o.map)
}
/// the 16-byte storage header alone
pub fn encode_storage(s: &RStorage) -> Vec<u8> {
    let mut o = Out {
        b: vec![],
        be: true,
        map: vec![],
    };
    o.raw(b"DLT\x01", Role::Pattern);
    o.raw(&s.secs.to_le_bytes(), Role::StorageTime);
    o.raw(&s.micros.to_le_bytes(), Role::StorageTime);
    o.id(&s.ecu);
    o.b
}
pub fn encode(m: &RMsg) -> Vec<u8> {
    encode_with_map(m).0
}

// ------------------------------------------------------------------------------------------------
// decoder

/// text field of fixed size: bytes before the first NUL, longest valid UTF-8 prefix
pub fn text(b: &[u8]) -> String {
    let cut = b.iter().position(|&c| c == 0).unwrap_or(b.len());
    let b = &b[..cut];
    match std::str::from_utf8(b) {
        Ok(s) => s.to_string(),
        Err(e) => String::from_utf8_lossy(&b[..e.valid_up_to()]).into_owned(),
    }
}

/// Decode a type-info word; `None` = not one supported kind with a supported width.
pub fn decode_type(w: u32) -> Option<RType> {
    let tyle = (w & 0xf) as u8;
    let kinds = (w >> 4) & 0x7f; // BOOL SINT UINT FLOA ARAY STRG RAWD
    let vari = w & (1 << 11) != 0;
    let fixp = w & (1 << 12) != 0;
    let trai = w & (1 << 13) != 0;
    let scod = ((w >> 15) & 7) as u8;
    let bits = |t: u8| -> Option<u8> {
        match t {
            1 => Some(8),
            2 => Some(16),
            3 => Some(32),
            4 => Some(64),
            5 => Some(128),
            _ => None,
        }
    };
    let kind = match kinds {
        0b000_0001 => RKind::Bool,
        0b000_0010 | 0b000_0100 => {
            let b = bits(tyle)?;
            let signed = kinds == 0b10;
            if fixp {
                if b != 32 && b != 64 {
                    return None;
                }
                if signed {
                    RKind::SintFx(b)
                } else {
                    RKind::UintFx(b)
                }
            } else if signed {
                RKind::Sint(b)
            } else {
                RKind::Uint(b)
            }
        }
        0b000_1000 => {
            let b = bits(tyle)?;
            if b != 32 && b != 64 {
                return None;
            }
            RKind::Float(b)
        }
        0b010_0000 => RKind::Str,
        0b100_0000 => RKind::Raw,
        _ => return None,
    };
    Some(RType {
        kind,
        vari,
        trai,
        scod,
    })
}

pub struct Cur<'a> {
    pub b: &'a [u8],
    pub p: usize,
    pub be: bool,
}
impl<'a> Cur<'a> {
    pub fn take(&mut self, n: usize) -> Option<&'a [u8]> {
        if self.b.len() - self.p < n {
            None
        } else {
            let s = &self.b[self.p..self.p + n];
            self.p += n;
            Some(s)
        }
    }
    pub fn u8(&mut self) -> Option<u8> {
        Some(self.take(1)?[0])
    }
    pub fn u16(&mut self) -> Option<u16> {
        let s = self.take(2)?;
        Some(if self.be {
            u16::from_be_bytes([s[0], s[1]])
        } else {
            u16::from_le_bytes([s[0], s[1]])
        })
    }
    pub fn u32(&mut self) -> Option<u32> {
        let s: [u8; 4] = self.take(4)?.try_into().unwrap();
        Some(if self.be {
            u32::from_be_bytes(s)
        } else {
            u32::from_le_bytes(s)
        })
    }
    pub fn uint(&mut self, bits: u8) -> Option<u128> {
        let n = bits as usize / 8;
        let s = self.take(n)?;
        let mut v: u128 = 0;
        if self.be {
            for &x in s {
                v = (v << 8) | x as u128;
            }
        } else {
            for &x in s.iter().rev() {
                v = (v << 8) | x as u128;
            }
        }
        Some(v)
    }
    pub fn sint(&mut self, bits: u8) -> Option<i128> {
        let u = self.uint(bits)?;
        let sh = 128 - bits as u32;
        Some(((u << sh) as i128) >> sh)
    }
}

pub fn decode_arg(c: &mut Cur) -> Result<RArg, &'static str> {
    const SHORT: &str = "argument exceeds payload";
    let w = c.u32().ok_or(SHORT)?;
    let ty = decode_type(w).ok_or("unsupported type info")?;
    let mut name = None;
    let mut unit = None;
    let mut fixp = None;
    let val = match ty.kind {
        RKind::Bool => {
            if ty.vari {
                let n = c.u16().ok_or(SHORT)? as usize;
                name = Some(text(c.take(n).ok_or(SHORT)?));
            }
            RVal::Bool(c.u8().ok_or(SHORT)?)
        }
        RKind::Str | RKind::Raw => {
            let l = c.u16().ok_or(SHORT)? as usize;
            if ty.vari {
                let n = c.u16().ok_or(SHORT)? as usize;
                name = Some(text(c.take(n).ok_or(SHORT)?));
            }
            let d = c.take(l).ok_or(SHORT)?;
            if ty.kind == RKind::Str {
                RVal::Str(text(d))
            } else {
                RVal::Raw(d.to_vec())
            }
        }
        k => {
            if ty.vari {
                let n = c.u16().ok_or(SHORT)? as usize;
                let u = c.u16().ok_or(SHORT)? as usize;
                name = Some(text(c.take(n).ok_or(SHORT)?));
                unit = Some(text(c.take(u).ok_or(SHORT)?));
            }
            match k {
                RKind::Sint(b) => RVal::I(c.sint(b).ok_or(SHORT)?),
                RKind::Uint(b) => RVal::U(c.uint(b).ok_or(SHORT)?),
                RKind::Float(32) => RVal::F32(c.u32().ok_or(SHORT)?),
                RKind::Float(_) => RVal::F64(c.uint(64).ok_or(SHORT)? as u64),
                RKind::SintFx(b) | RKind::UintFx(b) => {
                    let q = c.u32().ok_or(SHORT)?;
                    let off = c.sint(b).ok_or(SHORT)? as i64;
                    fixp = Some((q, off));
                    if matches!(k, RKind::SintFx(_)) {
                        RVal::I(c.sint(b).ok_or(SHORT)?)
                    } else {
                        RVal::U(c.uint(b).ok_or(SHORT)?)
                    }
                }
                _ => unreachable!(),
            }
        }
    };
    Ok(RArg {
        ty,
        name,
        unit,
        fixp,
        val,
    })
}

pub fn find_pattern(buf: &[u8]) -> Option<usize> {
    if buf.len() < 4 {
        return None;
    }
    (0..=buf.len() - 4)
        .find(|&i| buf[i] == b'D' && buf[i + 1] == b'L' && buf[i + 2] == b'T' && buf[i + 3] == 1)
}

pub fn decode(buf: &[u8], with_storage: bool) -> Verdict {
    let mut off = 0usize;
    let mut storage = None;
    if with_storage {
        if buf.len() < 16 {
            return Verdict::Incomplete;
        }
        let k = match find_pattern(buf) {
            Some(k) => k,
            None => return Verdict::Incomplete,
        };
        if buf.len() - k < 16 {
            return Verdict::Incomplete;
        }
        let s = &buf[k..k + 16];
        storage = Some(RStorage {
            secs: u32::from_le_bytes(s[4..8].try_into().unwrap()),
            micros: u32::from_le_bytes(s[8..12].try_into().unwrap()),
            ecu: text(&s[12..16]),
        });
        off = k + 16;
    }
    let m = &buf[off..];
    if m.len() < 4 {
        return Verdict::Incomplete;
    }
    let htyp = m[0];
    let mcnt = m[1];
    let len = u16::from_be_bytes([m[2], m[3]]);
    let std_len = std_header_len(htyp);
    let hdr_len = headers_len(htyp);
    let bad_len = (len as usize) < hdr_len;
    if m.len() < std_len {
        return if bad_len {
            Verdict::IncompleteOrReject("length < headers")
        } else {
            Verdict::Incomplete
        };
    }
    if bad_len {
        return Verdict::Reject("length < headers");
    }
    if m.len() < hdr_len || m.len() < len as usize {
        return Verdict::Incomplete;
    }
    let mut p = 4;
    let ecu = if htyp & WEID != 0 {
        p += 4;
        Some(text(&m[p - 4..p]))
    } else {
        None
    };
    let seid = if htyp & WSID != 0 {
        p += 4;
        Some(u32::from_be_bytes(m[p - 4..p].try_into().unwrap()))
    } else {
        None
    };
    let tmsp = if htyp & WTMS != 0 {
        p += 4;
        Some(u32::from_be_bytes(m[p - 4..p].try_into().unwrap()))
    } else {
        None
    };
    let ext = if htyp & UEH != 0 {
        let e = &m[p..p + 10];
        p += 10;
        Some(RExt {
            msin: e[0],
            noar: e[1],
            apid: text(&e[2..6]),
            ctid: text(&e[6..10]),
        })
    } else {
        None
    };
    let pl = &m[p..len as usize];
    let be = htyp & MSBF != 0;
    let payload = match &ext {
        Some(e) if e.msin & 1 != 0 => {
            let mut c = Cur { b: pl, p: 0, be };
            let mut args = vec![];
            for _ in 0..e.noar {
                match decode_arg(&mut c) {
                    Ok(a) => args.push(a),
                    Err(why) => return Verdict::Reject(why),
                }
            }
            RPayload::Verbose(args)
        }
        Some(e) if (e.msin >> 1) & 7 == 3 => {
            if pl.is_empty() {
                return Verdict::Reject("control payload empty");
            }
            RPayload::Control(pl[0], pl[1..].to_vec())
        }
        _ => {
            if pl.len() < 4 {
                return Verdict::Reject("non-verbose payload < 4");
            }
            let id: [u8; 4] = pl[..4].try_into().unwrap();
            RPayload::NonVerbose(
                if be {
                    u32::from_be_bytes(id)
                } else {
                    u32::from_le_bytes(id)
                },
                pl[4..].to_vec(),
            )
        }
    };
    Verdict::Msg(
        Box::new(RMsg {
            storage,
            htyp,
            mcnt,
            len,
            ecu,
            seid,
            tmsp,
            ext,
            payload,
        }),
        off + len as usize,
    )
}
