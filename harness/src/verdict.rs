//! Result types shared by all oracles (no proptest dependency, so the fuzz targets can link them).

/// What an oracle says about a case that satisfies the property.
#[derive(Debug, Default, Clone)]
pub struct Pass {
    pub nontrivial: bool,
    pub classes: Vec<&'static str>,
    /// number of sub-cases the oracle enumerated inside this case (cut points, truncation offsets, schedules ...)
    pub subcases: u64,
}
impl Pass {
    pub fn new(nontrivial: bool) -> Self {
        Pass {
            nontrivial,
            classes: Vec::new(),
            subcases: 0,
        }
    }
    pub fn class(mut self, c: &'static str) -> Self {
        self.classes.push(c);
        self
    }
    pub fn class_if(mut self, cond: bool, c: &'static str) -> Self {
        if cond {
            self.classes.push(c);
        }
        self
    }
}

/// A counter-example: `sig` identifies the failing call site / input shape (used to match known findings).
#[derive(Debug, Clone)]
pub struct Violation {
    pub sig: String,
    pub msg: String,
}
impl Violation {
    pub fn new(sig: impl Into<String>, msg: impl Into<String>) -> Self {
        Violation {
            sig: sig.into(),
            msg: msg.into(),
        }
    }
    pub fn from_panic(ctx: &str, p: &crate::util::Panic) -> Self {
        Violation {
            sig: p.signature(),
            msg: format!("{}: {}", ctx, p.describe()),
        }
    }
}
pub type CheckResult = Result<Pass, Violation>;

#[macro_export]
macro_rules! viol {
    ($sig:expr, $($arg:tt)*) => {
        $crate::verdict::Violation::new($sig, format!($($arg)*))
    };
}
