use dltverif::props;
use dltverif::runner::{CheckResult, Run, Tier};
use serde_json::Value;
use std::path::PathBuf;

struct Prop {
    id: &'static str,
    level: &'static str,
    run: fn(&Run),
    replay: fn(&str, &Value) -> Option<CheckResult>,
}

fn table() -> Vec<Prop> {
    vec![
        Prop { id: "C01", level: "exploration", run: props::c01::run, replay: props::c01::replay },
        Prop { id: "C02", level: "exploration", run: props::c02::run, replay: props::c02::replay },
        Prop { id: "C03", level: "exploration", run: props::c03::run, replay: props::c03::replay },
        Prop { id: "C04", level: "exploration", run: props::c04::run, replay: props::c04::replay },
        Prop { id: "C16", level: "exploration", run: props::c16::run, replay: props::c16::replay },
        Prop { id: "C05", level: "exploration", run: props::c05::run, replay: props::c05::replay },
        Prop { id: "C06", level: "exploration", run: props::c06::run, replay: props::c06::replay },
        Prop { id: "C19", level: "exploration", run: props::c19::run, replay: props::c19::replay },
        Prop { id: "C07", level: "exploration", run: props::c07::run, replay: props::c07::replay },
        Prop { id: "C08", level: "exploration", run: props::c08::run, replay: props::c08::replay },
        Prop { id: "C09", level: "exploration", run: props::c09::run, replay: props::c09::replay },
        Prop { id: "C10", level: "exploration", run: props::c10::run, replay: props::c10::replay },
        Prop { id: "C11", level: "exploration", run: props::c11::run, replay: props::c11::replay },
        Prop { id: "C12", level: "fault_enumeration", run: props::c12::run, replay: props::c12::replay },
        Prop { id: "C13", level: "exploration", run: props::c13::run, replay: props::c13::replay },
        Prop { id: "C14", level: "exploration", run: props::c14::run, replay: props::c14::replay },
        Prop { id: "C15", level: "exploration", run: props::c15::run, replay: props::c15::replay },
        Prop { id: "C17", level: "exploration", run: props::c17::run, replay: props::c17::replay },
        Prop { id: "C18", level: "exploration", run: props::c18::run, replay: props::c18::replay },
    ]
}

fn root() -> PathBuf {
    match std::env::var("DLTVERIF_ROOT") {
        Ok(r) => PathBuf::from(r),
        Err(_) => PathBuf::from(env!("CARGO_MANIFEST_DIR")).parent().unwrap().to_path_buf(),
    }
}

fn usage() -> ! {
    eprintln!("usage: dltverif run <Cxx> <quick|thorough> | dltverif replay <Cxx> <file>");
    std::process::exit(2)
}

fn main() {
    let args: Vec<String> = std::env::args().collect();
    dltverif::util::install_panic_hook();
    let seed = std::env::var("VERIF_SEED").ok().and_then(|s| s.trim().parse::<u64>().ok()).unwrap_or(0);
    match args.get(1).map(|s| s.as_str()) {
        Some("run") => {
            let (Some(id), Some(tier)) = (args.get(2), args.get(3)) else { usage() };
            let tier = match tier.as_str() {
                "quick" => Tier::Quick,
                "thorough" => Tier::Thorough,
                _ => usage(),
            };
            let Some(p) = table().into_iter().find(|p| p.id == id) else {
                eprintln!("unknown property {}", id);
                std::process::exit(2)
            };
            let run = Run::new(&root(), p.id, tier, seed, p.level);
            if std::panic::catch_unwind(std::panic::AssertUnwindSafe(|| (p.run)(&run))).is_err() {
                println!("INCONCLUSIVE property={} the harness itself panicked (see stderr); this is not a verdict about dlt-core", p.id);
                std::process::exit(2);
            }
            std::process::exit(run.finish());
        }
        Some("eval-server") => dltverif::evalserver::serve(),
        Some("replay") => {
            let (Some(id), Some(file)) = (args.get(2), args.get(3)) else { usage() };
            let Some(p) = table().into_iter().find(|p| p.id == id) else {
                eprintln!("unknown property {}", id);
                std::process::exit(2)
            };
            let text = std::fs::read_to_string(file).unwrap_or_else(|e| {
                eprintln!("cannot read {}: {}", file, e);
                std::process::exit(2)
            });
            let body: Value = serde_json::from_str(&text).unwrap_or_else(|e| {
                eprintln!("bad replay file: {}", e);
                std::process::exit(2)
            });
            let section = body["section"].as_str().unwrap_or("");
            match (p.replay)(section, &body["case"]) {
                Some(Ok(pass)) => {
                    println!("REPLAY-OK property={} classes={:?}", p.id, pass.classes);
                    std::process::exit(0)
                }
                Some(Err(v)) => {
                    println!("VIOLATION property={} replay={}", p.id, file);
                    println!("  signature: {}\n  {}", v.sig, v.msg);
                    std::process::exit(1)
                }
                None => {
                    eprintln!("replay file does not fit property {} (section {:?})", p.id, section);
                    std::process::exit(2)
                }
            }
        }
        _ => usage(),
    }
}
