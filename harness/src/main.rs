use dltverif::props;
use dltverif::runner::{CheckResult, Run, Tier};
use serde_json::Value;
use std::path::PathBuf;

struct Prop {
    id: &'static str,
    level: &'static str,
    run: fn(&Run),
    replay: fn(&str, &Value) -> Option<CheckResult>,
}

fn table() -> Vec<Prop> {
    vec![
        Prop {
            id: "C01",
            level: "exploration",
            run: props::c01::run,
            replay: props::c01::replay,
        },
        Prop {
            id: "C02",
            level: "exploration",
            run: props::c02::run,
            replay: props::c02::replay,
        },
        Prop {
            id: "C03",
            level: "exploration",
            run: props::c03::run,
            replay: props::c03::replay,
        },
        Prop {
            id: "C04",
            level: "exploration",
            run: props::c04::run,
            replay: props::c04::replay,
        },
        Prop {
            id: "C16",
            level: "exploration",
            run: props::c16::run,
            replay: props::c16::replay,
        },
        Prop {
            id: "C05",
            level: "exploration",
            run: props::c05::run,
            replay: props::c05::replay,
        },
        Prop {
            id: "C06",
            level: "exploration",
            run: props::c06::run,
            replay: props::c06::replay,
        },
        Prop {
            id: "C19",
            level: "exploration",
            run: props::c19::run,
            replay: props::c19::replay,
        },
        Prop {
            id: "C07",
            level: "exploration",
            run: props::c07::run,
            replay: props::c07::replay,
        },
        Prop {
            id: "C08",
            level: "exploration",
            run: props::c08::run,
            replay: props::c08::replay,
        },
        Prop {
            id: "C09",
            level: "exploration",
            run: props::c09::run,
            replay: props::c09::replay,
        },
        Prop {
            id: "C10",
            level: "exploration",
            run: props::c10::run,
            replay: props::c10::replay,
        },
        Prop {
            id: "C11",
            level: "exploration",
            run: props::c11::run,
            replay: props::c11::replay,
        },
        Prop {
            id: "C12",
            level: "fault_enumeration",
            run: props::c12::run,
            replay: props::c12::replay,
        },
        Prop {
            id: "C13",
            level: "exploration",
            run: props::c13::run,
            replay: props::c13::replay,
        },
        Prop {
            id: "C14",
            level: "exploration",
            run: props::c14::run,
            replay: props::c14::replay,
        },
        Prop {
            id: "C15",
            level: "exploration",
            run: props::c15::run,
            replay: props::c15::replay,
        },
        Prop {
            id: "C17",
            level: "exploration",
            run: props::c17::run,
            replay: props::c17::replay,
        },
        Prop {
            id: "C18",
            level: "exploration",
            run: props::c18::run,
            replay: props::c18::replay,
        },
    ]
}

fn root() -> PathBuf {
    match std::env::var("DLTVERIF_ROOT") {
        Ok(r) => PathBuf::from(r),
        Err(_) => PathBuf::from(env!("CARGO_MANIFEST_DIR"))
            .parent()
            .unwrap()
            .to_path_buf(),
    }
}

use dltverif::props::fuzz_replay;

/// `dltverif gen-corpus <bytes|fibex|args> <dir>`: small generated seed inputs for a libFuzzer target
fn gen_corpus(target: &str, dir: &str, seed: u64) {
    use dltverif::gen::{bytes as gb, fibex as fx};
    use dltverif::runner::Sampler;
    std::fs::create_dir_all(dir).expect("corpus dir");
    let mut s = Sampler::new(seed ^ 0xC0_4B05);
    let mut n = 0;
    let mut put = |bytes: Vec<u8>| {
        std::fs::write(format!("{}/gen-{:04}", dir, n), bytes).expect("write corpus file");
        n += 1;
    };
    match target {
        "bytes" => {
            for i in 0..400u32 {
                let storage = i % 2 == 1;
                let buf = s.sample(&gb::hostile_small(storage));
                if buf.len() <= 4000 {
                    let mut v = vec![(storage as u8) | (((i / 2) % 8) as u8) << 1];
                    v.extend(buf);
                    put(v);
                }
            }
        }
        "fibex" => {
            for i in 0..2u8 {
                if let Some(d) = props::c12::sample(i) {
                    put(d);
                }
            }
            for _ in 0..60 {
                let m = s.sample(&fx::model());
                let l = s.sample(&fx::layout());
                for d in fx::render(&m, &l) {
                    if d.len() < 6000 {
                        put(d.into_bytes());
                    }
                }
            }
        }
        "args" => {
            for i in 0..200u32 {
                let k = (i % 9) as u8;
                let mut v = vec![(i as u8 & 1) | k << 1];
                for j in 0..k {
                    v.push(((i / 3) as u8).wrapping_mul(7).wrapping_add(j * 3));
                }
                v.extend(s.sample(&proptest::collection::vec(
                    proptest::prelude::any::<u8>(),
                    0..40,
                )));
                put(v);
            }
        }
        "strat" => {
            // the structured target decodes choices from the bytes: random choice strings of various lengths
            for i in 0..240usize {
                let len = [8usize, 24, 64, 160, 400, 900][i % 6];
                put(s.sample(&proptest::collection::vec(
                    proptest::prelude::any::<u8>(),
                    len..len + 1,
                )));
            }
        }
        _ => usage(),
    }
    println!("{} corpus files written to {}", n, dir);
}

/// `dltverif fuzz-triage <Cxx> <target> <artifact>`: re-judge a libFuzzer artifact in-process with the
/// property's oracle, minimise it under that oracle and save it as a replay file
fn fuzz_triage(id: &str, target: &str, file: &str) -> i32 {
    let data = match std::fs::read(file) {
        Ok(d) => d,
        Err(e) => {
            eprintln!("cannot read {}: {}", file, e);
            return 2;
        }
    };
    if target == "strat" {
        // structured target: decode the case, minimise the input at byte level under the same violation signature,
        // decode once more and save the *case* as an ordinary replay of the property
        use dltverif::props::structured;
        let judge = |d: &[u8]| -> Option<(dltverif::runner::Violation, &'static str, Value)> {
            match structured::run(id, d) {
                Some(o) => o.result.err().map(|v| (v, o.section, o.case)),
                None => None,
            }
        };
        let Some((first, _, _)) = judge(&data) else {
            println!("NOT-REPRODUCED property={} target=strat artifact={} (the in-process oracle accepts the case decoded from this input)", id, file);
            return 3;
        };
        let known = dltverif::runner::load_known(&root());
        if known
            .iter()
            .any(|k| k.property == id && first.sig.contains(&k.signature))
        {
            println!("KNOWN-FINDING: property={} signature={} (rediscovered by the structured fuzz target)", id, first.sig);
            return 0;
        }
        let min = dltverif::oracle::minimise(&data, &|d| judge(d).map(|x| x.0.sig));
        let (v, section, case) = judge(&min).unwrap_or_else(|| judge(&data).unwrap());
        let run = Run::new(&root(), id, Tier::Thorough, 0, "exploration");
        let path = run.report_violation(section, case, &v);
        println!("VIOLATION property={} replay={}", id, path);
        println!("  {}", v.msg.lines().next().unwrap_or(""));
        return 1;
    }
    let section = format!("fuzz-{}", target);
    let judge = |d: &[u8]| -> Option<dltverif::runner::Violation> {
        let case = serde_json::json!({"data": dltverif::util::hex(d)});
        match fuzz_replay(id, &section, &case) {
            Some(Err(v)) => Some(v),
            _ => None,
        }
    };
    let Some(first) = judge(&data) else {
        println!("NOT-REPRODUCED property={} target={} artifact={} (the in-process oracle accepts this input)", id, target, file);
        return 3;
    };
    let known = dltverif::runner::load_known(&root());
    if known
        .iter()
        .any(|k| k.property == id && first.sig.contains(&k.signature))
    {
        println!(
            "KNOWN-FINDING: property={} signature={} (rediscovered by the {} fuzz target)",
            id, first.sig, target
        );
        return 0;
    }
    let min = if target == "fibex" {
        data.clone()
    } else {
        dltverif::oracle::minimise(&data, &|d| judge(d).map(|v| v.sig))
    };
    let v = judge(&min).unwrap_or(first);
    let run = Run::new(&root(), id, Tier::Thorough, 0, "exploration");
    let path = run.report_violation(
        &section,
        serde_json::json!({"data": dltverif::util::hex(&min)}),
        &v,
    );
    println!("VIOLATION property={} replay={}", id, path);
    println!("  {}", v.msg.lines().next().unwrap_or(""));
    1
}

/// `dltverif run` runs the check in a child process.  A child that ends by itself decides (its exit code is passed
/// on).  A child that dies by a signal (abort after a stack overflow, segmentation fault: failures no `catch_unwind`
/// stops) is started once more with case tracking; the cases that were in flight when it died again are re-judged one by
/// one in further child processes, and a case whose replay dies as well is reported as a violation with that replay file.
fn supervise(id: &str, tier: &str, root: &std::path::Path) -> i32 {
    use std::process::{Command, Stdio};
    let exe = std::env::current_exe().expect("current_exe");
    let status = Command::new(&exe).args(["run", id, tier]).env("DLTVERIF_INNER", "1").status();
    let died = |st: &std::io::Result<std::process::ExitStatus>| -> Option<String> {
        match st {
            Ok(s) => match s.code() {
                Some(c) if c <= 2 => None,
                Some(c) => Some(format!("exit code {}", c)),
                None => {
                    use std::os::unix::process::ExitStatusExt;
                    Some(format!("signal {}", s.signal().unwrap_or(0)))
                }
            },
            Err(e) => Some(format!("could not be started: {}", e)),
        }
    };
    let Some(how) = died(&status) else {
        return status.ok().and_then(|s| s.code()).unwrap_or(2);
    };
    eprintln!("[{}] the check process died ({}); running it once more with case tracking", id, how);
    let out = std::env::var("DLTVERIF_OUT").map(std::path::PathBuf::from).unwrap_or_else(|_| root.to_path_buf());
    let dir = out.join("work").join(format!("track-{}-{}", id, std::process::id()));
    let _ = std::fs::remove_dir_all(&dir);
    if std::fs::create_dir_all(&dir).is_err() {
        println!("INCONCLUSIVE property={} the check process died ({}) and no tracking directory could be created", id, how);
        return 2;
    }
    let second = Command::new(&exe)
        .args(["run", id, tier])
        .env("DLTVERIF_INNER", "1")
        .env("DLTVERIF_TRACK", &dir)
        .env("DLTVERIF_TRACK_PROP", id)
        .env("DLTVERIF_SKIP_REGRESSIONS", "1")
        .stdout(Stdio::null())
        .status();
    let mut verdict = 2;
    if died(&second).is_none() {
        println!("INCONCLUSIVE property={} the check process died ({}) but a second run with the same seed ended normally; not a verdict", id, how);
    } else {
        let mut files: Vec<_> = std::fs::read_dir(&dir).map(|d| d.filter_map(|e| e.ok().map(|e| e.path())).collect()).unwrap_or_default();
        files.sort();
        let mut confirmed = None;
        for f in &files {
            let st = Command::new(&exe).args(["replay", id]).arg(f).env("DLTVERIF_INNER", "1").stdout(Stdio::null()).stderr(Stdio::null()).status();
            if let Some(h) = died(&st) {
                confirmed = Some((f.clone(), h));
                break;
            }
        }
        match confirmed {
            Some((f, h)) => {
                let text = std::fs::read_to_string(&f).unwrap_or_default();
                let mut body: Value = serde_json::from_str(&text).unwrap_or(Value::Null);
                body["signature"] = Value::String("process-death".to_string());
                body["violation"] = Value::String(format!("evaluating this case kills the process ({}): a failure that cannot be caught, e.g. a stack overflow or an out-of-bounds access", h));
                let rdir = out.join("replays");
                let _ = std::fs::create_dir_all(&rdir);
                let section = body["section"].as_str().unwrap_or("").to_string();
                let path = rdir.join(format!("{}-{}-process-death-{:016x}.json", id, section, dltverif::util::hash_str(&text)));
                let _ = std::fs::write(&path, serde_json::to_string_pretty(&body).unwrap_or(text));
                println!("VIOLATION property={} replay={}", id, path.display());
                println!("  evaluating the case kills the process ({}); replay with: dltverif replay {} <file>", h, id);
                verdict = 1;
            }
            None => println!("INCONCLUSIVE property={} the check process died twice ({}) but none of the {} cases in flight kills a process of its own; not a verdict", id, how, files.len()),
        }
    }
    let _ = std::fs::remove_dir_all(&dir);
    verdict
}

fn usage() -> ! {
    eprintln!("usage: dltverif run <Cxx> <quick|thorough> | dltverif replay <Cxx> <file>");
    std::process::exit(2)
}

fn main() {
    let args: Vec<String> = std::env::args().collect();
    dltverif::util::install_panic_hook();
    let seed = std::env::var("VERIF_SEED")
        .ok()
        .and_then(|s| s.trim().parse::<u64>().ok())
        .unwrap_or(0);
    match args.get(1).map(|s| s.as_str()) {
        Some("run") => {
            let (Some(id), Some(tier)) = (args.get(2), args.get(3)) else {
                usage()
            };
            let tier = match tier.as_str() {
                "quick" => Tier::Quick,
                "thorough" => Tier::Thorough,
                _ => usage(),
            };
            let Some(p) = table().into_iter().find(|p| p.id == id) else {
                eprintln!("unknown property {}", id);
                std::process::exit(2)
            };
            if std::env::var("DLTVERIF_INNER").is_err() {
                std::process::exit(supervise(p.id, &args[3], &root()));
            }
            // a logger at Trace level is installed for every check: the argument expressions of dlt-core's log calls
            // (several of them slice the input) are evaluated as they are in an application that logs
            dltverif::oracle::install_logger();
            let run = Run::new(&root(), p.id, tier, seed, p.level);
            dltverif::runner::spawn_watchdog(p.id.to_string());
            if std::panic::catch_unwind(std::panic::AssertUnwindSafe(|| (p.run)(&run))).is_err() {
                println!("INCONCLUSIVE property={} the harness itself panicked (see stderr); this is not a verdict about dlt-core", p.id);
                std::process::exit(2);
            }
            std::process::exit(run.finish());
        }
        Some("eval-server") => dltverif::evalserver::serve(),
        Some("gen-corpus") => {
            let (Some(t), Some(d)) = (args.get(2), args.get(3)) else {
                usage()
            };
            gen_corpus(t, d, seed);
        }
        Some("fuzz-triage") => {
            let (Some(id), Some(t), Some(f)) = (args.get(2), args.get(3), args.get(4)) else {
                usage()
            };
            std::process::exit(fuzz_triage(id, t, f));
        }
        Some("replay") => {
            let (Some(id), Some(file)) = (args.get(2), args.get(3)) else {
                usage()
            };
            let Some(p) = table().into_iter().find(|p| p.id == id) else {
                eprintln!("unknown property {}", id);
                std::process::exit(2)
            };
            if std::env::var("DLTVERIF_INNER").is_err() {
                // supervised replay: a case that kills the process or never returns is reported, not suffered
                let exe = std::env::current_exe().expect("current_exe");
                let mut child = std::process::Command::new(exe).args(["replay", id, file]).env("DLTVERIF_INNER", "1").spawn().unwrap_or_else(|e| {
                    eprintln!("cannot start the replay process: {}", e);
                    std::process::exit(2)
                });
                loop {
                    std::thread::sleep(std::time::Duration::from_millis(100));
                    match child.try_wait() {
                        Ok(Some(st)) => match st.code() {
                            Some(c) if c <= 2 => std::process::exit(c),
                            other => {
                                println!("VIOLATION property={} replay={}", id, file);
                                println!("  replaying the case kills the process ({:?}, {})", other, st);
                                std::process::exit(1)
                            }
                        },
                        Ok(None) => {}
                        Err(_) => std::process::exit(2),
                    }
                    if dltverif::runner::cpu_seconds_of(child.id()).unwrap_or(0.0) > 120.0 {
                        let _ = child.kill();
                        let _ = child.wait();
                        println!("VIOLATION property={} replay={}", id, file);
                        println!("  replaying the case does not return (120 s of CPU consumed)");
                        std::process::exit(1)
                    }
                }
            }
            let text = std::fs::read_to_string(file).unwrap_or_else(|e| {
                eprintln!("cannot read {}: {}", file, e);
                std::process::exit(2)
            });
            let body: Value = serde_json::from_str(&text).unwrap_or_else(|e| {
                eprintln!("bad replay file: {}", e);
                std::process::exit(2)
            });
            dltverif::oracle::install_logger();
            dltverif::oracle::SINK_ALWAYS.store(true, std::sync::atomic::Ordering::Relaxed);
            let section = body["section"].as_str().unwrap_or("");
            let result = if section.starts_with("fuzz-") {
                fuzz_replay(p.id, section, &body["case"])
            } else {
                (p.replay)(section, &body["case"])
            };
            match result {
                Some(Ok(pass)) => {
                    println!("REPLAY-OK property={} classes={:?}", p.id, pass.classes);
                    std::process::exit(0)
                }
                Some(Err(v)) => {
                    println!("VIOLATION property={} replay={}", p.id, file);
                    println!("  signature: {}\n  {}", v.sig, v.msg);
                    std::process::exit(1)
                }
                None => {
                    eprintln!(
                        "replay file does not fit property {} (section {:?})",
                        p.id, section
                    );
                    std::process::exit(2)
                }
            }
        }
        _ => usage(),
    }
}
