//! The harness's own model of a DLT message (shared by the generators and the reference codec)
//! and the conversions between it and dlt-core's types.  Floats are kept as bit patterns, so the
//! model is `Eq + Hash` and comparisons are bit-for-bit.
use dlt_core::dlt::*;
use serde::{Deserialize, Serialize};

pub const UEH: u8 = 1;
pub const MSBF: u8 = 2;
pub const WEID: u8 = 4;
pub const WSID: u8 = 8;
pub const WTMS: u8 = 16;

mod u128_str {
    use serde::{Deserialize, Deserializer, Serializer};
    pub fn serialize<S: Serializer>(v: &u128, s: S) -> Result<S::Ok, S::Error> {
        s.serialize_str(&format!("{:#x}", v))
    }
    pub fn deserialize<'de, D: Deserializer<'de>>(d: D) -> Result<u128, D::Error> {
        let s = String::deserialize(d)?;
        u128::from_str_radix(s.trim_start_matches("0x"), 16).map_err(serde::de::Error::custom)
    }
}
mod i128_str {
    use serde::{Deserialize, Deserializer, Serializer};
    pub fn serialize<S: Serializer>(v: &i128, s: S) -> Result<S::Ok, S::Error> {
        s.serialize_str(&v.to_string())
    }
    pub fn deserialize<'de, D: Deserializer<'de>>(d: D) -> Result<i128, D::Error> {
        let s = String::deserialize(d)?;
        s.parse::<i128>().map_err(serde::de::Error::custom)
    }
}

#[derive(Debug, Clone, PartialEq, Eq, Hash, Serialize, Deserialize)]
pub struct RStorage {
    pub secs: u32,
    pub micros: u32,
    pub ecu: String,
}
#[derive(Debug, Clone, PartialEq, Eq, Hash, Serialize, Deserialize)]
pub struct RExt {
    pub msin: u8,
    pub noar: u8,
    pub apid: String,
    pub ctid: String,
}
/// kind + width in bits
#[derive(Debug, Clone, Copy, PartialEq, Eq, Hash, Serialize, Deserialize)]
pub enum RKind {
    Bool,
    Sint(u8),
    Uint(u8),
    SintFx(u8),
    UintFx(u8),
    Float(u8),
    Str,
    Raw,
}
#[derive(Debug, Clone, PartialEq, Eq, Hash, Serialize, Deserialize)]
pub enum RVal {
    Bool(u8),
    U(#[serde(with = "u128_str")] u128),
    I(#[serde(with = "i128_str")] i128),
    F32(u32),
    F64(u64),
    Str(String),
    Raw(#[serde(with = "crate::util::hexser")] Vec<u8>),
}
#[derive(Debug, Clone, Copy, PartialEq, Eq, Hash, Serialize, Deserialize)]
pub struct RType {
    pub kind: RKind,
    pub vari: bool,
    pub trai: bool,
    pub scod: u8,
}
#[derive(Debug, Clone, PartialEq, Eq, Hash, Serialize, Deserialize)]
pub struct RArg {
    pub ty: RType,
    pub name: Option<String>,
    pub unit: Option<String>,
    /// (quantization bits, offset)
    pub fixp: Option<(u32, i64)>,
    pub val: RVal,
}
#[derive(Debug, Clone, PartialEq, Eq, Hash, Serialize, Deserialize)]
pub enum RPayload {
    Verbose(Vec<RArg>),
    NonVerbose(u32, #[serde(with = "crate::util::hexser")] Vec<u8>),
    Control(u8, #[serde(with = "crate::util::hexser")] Vec<u8>),
}
#[derive(Debug, Clone, PartialEq, Eq, Hash, Serialize, Deserialize)]
pub struct RMsg {
    pub storage: Option<RStorage>,
    pub htyp: u8,
    pub mcnt: u8,
    pub len: u16,
    pub ecu: Option<String>,
    pub seid: Option<u32>,
    pub tmsp: Option<u32>,
    pub ext: Option<RExt>,
    pub payload: RPayload,
}

impl RMsg {
    pub fn big_endian(&self) -> bool {
        self.htyp & MSBF != 0
    }
    pub fn headers_len(&self) -> usize {
        headers_len(self.htyp)
    }
    pub fn is_network_trace(&self) -> bool {
        matches!(&self.ext, Some(e) if e.msin & 1 != 0 && (e.msin >> 1) & 7 == 2)
    }
    pub fn payload_kind(&self) -> &'static str {
        match &self.payload {
            RPayload::Verbose(_) if self.is_network_trace() => "nwtrace",
            RPayload::Verbose(_) => "verbose",
            RPayload::NonVerbose(..) => "nonverbose",
            RPayload::Control(..) => "control",
        }
    }
}

pub fn std_header_len(htyp: u8) -> usize {
    let mut n = 4;
    for f in [WEID, WSID, WTMS] {
        if htyp & f != 0 {
            n += 4;
        }
    }
    n
}
pub fn headers_len(htyp: u8) -> usize {
    std_header_len(htyp) + if htyp & UEH != 0 { 10 } else { 0 }
}

// ------------------------------------------------------------------------------------------------
// message-info byte <-> MessageType, written from the AUTOSAR tables (MSTP bits 1-3, MTIN bits 4-7)

pub fn message_type_of(msin: u8) -> MessageType {
    let mstp = (msin >> 1) & 7;
    let mtin = msin >> 4;
    match mstp {
        0 => MessageType::Log(match mtin {
            1 => LogLevel::Fatal,
            2 => LogLevel::Error,
            3 => LogLevel::Warn,
            4 => LogLevel::Info,
            5 => LogLevel::Debug,
            6 => LogLevel::Verbose,
            n => LogLevel::Invalid(n),
        }),
        1 => MessageType::ApplicationTrace(match mtin {
            1 => ApplicationTraceType::Variable,
            2 => ApplicationTraceType::FunctionIn,
            3 => ApplicationTraceType::FunctionOut,
            4 => ApplicationTraceType::State,
            5 => ApplicationTraceType::Vfb,
            n => ApplicationTraceType::Invalid(n),
        }),
        2 => MessageType::NetworkTrace(match mtin {
            0 => NetworkTraceType::Invalid,
            1 => NetworkTraceType::Ipc,
            2 => NetworkTraceType::Can,
            3 => NetworkTraceType::Flexray,
            4 => NetworkTraceType::Most,
            5 => NetworkTraceType::Ethernet,
            6 => NetworkTraceType::Someip,
            n => NetworkTraceType::UserDefined(n),
        }),
        3 => MessageType::Control(match mtin {
            1 => ControlType::Request,
            2 => ControlType::Response,
            n => ControlType::Unknown(n),
        }),
        t => MessageType::Unknown((t, mtin)),
    }
}

/// the (MSTP, MTIN) a `MessageType` value stands for, if it is a canonical value
pub fn msin_of(mt: &MessageType) -> Option<u8> {
    let (mstp, mtin): (u8, u8) = match mt {
        MessageType::Log(l) => (
            0,
            match l {
                LogLevel::Fatal => 1,
                LogLevel::Error => 2,
                LogLevel::Warn => 3,
                LogLevel::Info => 4,
                LogLevel::Debug => 5,
                LogLevel::Verbose => 6,
                LogLevel::Invalid(n) if *n == 0 || (7..=15).contains(n) => *n,
                _ => return None,
            },
        ),
        MessageType::ApplicationTrace(a) => (
            1,
            match a {
                ApplicationTraceType::Variable => 1,
                ApplicationTraceType::FunctionIn => 2,
                ApplicationTraceType::FunctionOut => 3,
                ApplicationTraceType::State => 4,
                ApplicationTraceType::Vfb => 5,
                ApplicationTraceType::Invalid(n) if *n == 0 || (6..=15).contains(n) => *n,
                _ => return None,
            },
        ),
        MessageType::NetworkTrace(n) => (
            2,
            match n {
                NetworkTraceType::Invalid => 0,
                NetworkTraceType::Ipc => 1,
                NetworkTraceType::Can => 2,
                NetworkTraceType::Flexray => 3,
                NetworkTraceType::Most => 4,
                NetworkTraceType::Ethernet => 5,
                NetworkTraceType::Someip => 6,
                NetworkTraceType::UserDefined(n) if (7..=15).contains(n) => *n,
                _ => return None,
            },
        ),
        MessageType::Control(c) => (
            3,
            match c {
                ControlType::Request => 1,
                ControlType::Response => 2,
                ControlType::Unknown(n) if *n == 0 || (3..=15).contains(n) => *n,
                _ => return None,
            },
        ),
        MessageType::Unknown((t, i)) if (4..=7).contains(t) && *i <= 15 => (*t, *i),
        _ => return None,
    };
    Some((mstp << 1) | (mtin << 4))
}

// ------------------------------------------------------------------------------------------------
// model -> crate

fn type_length(bits: u8) -> TypeLength {
    match bits {
        8 => TypeLength::BitLength8,
        16 => TypeLength::BitLength16,
        32 => TypeLength::BitLength32,
        64 => TypeLength::BitLength64,
        _ => TypeLength::BitLength128,
    }
}
fn float_width(bits: u8) -> FloatWidth {
    if bits == 32 {
        FloatWidth::Width32
    } else {
        FloatWidth::Width64
    }
}
pub fn coding_of(scod: u8) -> StringCoding {
    match scod & 7 {
        0 => StringCoding::ASCII,
        1 => StringCoding::UTF8,
        n => StringCoding::Reserved(n),
    }
}
pub fn type_to_crate(t: &RType) -> TypeInfo {
    TypeInfo {
        kind: match t.kind {
            RKind::Bool => TypeInfoKind::Bool,
            RKind::Sint(b) => TypeInfoKind::Signed(type_length(b)),
            RKind::Uint(b) => TypeInfoKind::Unsigned(type_length(b)),
            RKind::SintFx(b) => TypeInfoKind::SignedFixedPoint(float_width(b)),
            RKind::UintFx(b) => TypeInfoKind::UnsignedFixedPoint(float_width(b)),
            RKind::Float(b) => TypeInfoKind::Float(float_width(b)),
            RKind::Str => TypeInfoKind::StringType,
            RKind::Raw => TypeInfoKind::Raw,
        },
        coding: coding_of(t.scod),
        has_variable_info: t.vari,
        has_trace_info: t.trai,
    }
}
pub fn value_to_crate(kind: RKind, v: &RVal) -> Value {
    match (kind, v) {
        (_, RVal::Bool(b)) => Value::Bool(*b),
        (RKind::Uint(8), RVal::U(x)) => Value::U8(*x as u8),
        (RKind::Uint(16), RVal::U(x)) => Value::U16(*x as u16),
        (RKind::Uint(32) | RKind::UintFx(32), RVal::U(x)) => Value::U32(*x as u32),
        (RKind::Uint(64) | RKind::UintFx(64), RVal::U(x)) => Value::U64(*x as u64),
        (_, RVal::U(x)) => Value::U128(*x),
        (RKind::Sint(8), RVal::I(x)) => Value::I8(*x as i8),
        (RKind::Sint(16), RVal::I(x)) => Value::I16(*x as i16),
        (RKind::Sint(32) | RKind::SintFx(32), RVal::I(x)) => Value::I32(*x as i32),
        (RKind::Sint(64) | RKind::SintFx(64), RVal::I(x)) => Value::I64(*x as i64),
        (_, RVal::I(x)) => Value::I128(*x),
        (_, RVal::F32(b)) => Value::F32(f32::from_bits(*b)),
        (_, RVal::F64(b)) => Value::F64(f64::from_bits(*b)),
        (_, RVal::Str(s)) => Value::StringVal(s.clone()),
        (_, RVal::Raw(r)) => Value::Raw(r.clone()),
    }
}
pub fn arg_to_crate(a: &RArg) -> Argument {
    let width = match a.ty.kind {
        RKind::SintFx(b) | RKind::UintFx(b) => b,
        _ => 0,
    };
    Argument {
        type_info: type_to_crate(&a.ty),
        name: a.name.clone(),
        unit: a.unit.clone(),
        fixed_point: a.fixp.map(|(q, off)| FixedPoint {
            quantization: f32::from_bits(q),
            offset: if width == 64 {
                FixedPointValue::I64(off)
            } else {
                FixedPointValue::I32(off as i32)
            },
        }),
        value: value_to_crate(a.ty.kind, &a.val),
    }
}
pub fn payload_to_crate(m: &RMsg) -> PayloadContent {
    match &m.payload {
        RPayload::Verbose(args) if m.is_network_trace() => PayloadContent::NetworkTrace(
            args.iter()
                .filter_map(|a| match &a.val {
                    RVal::Raw(d) => Some(d.clone()),
                    _ => None,
                })
                .collect(),
        ),
        RPayload::Verbose(args) => PayloadContent::Verbose(args.iter().map(arg_to_crate).collect()),
        RPayload::NonVerbose(id, d) => PayloadContent::NonVerbose(*id, d.clone()),
        RPayload::Control(s, d) => PayloadContent::ControlMsg(
            match s {
                1 => ControlType::Request,
                2 => ControlType::Response,
                n => ControlType::Unknown(*n),
            },
            d.clone(),
        ),
    }
}
pub fn to_crate(m: &RMsg) -> Message {
    Message {
        storage_header: m.storage.as_ref().map(|s| StorageHeader {
            timestamp: DltTimeStamp {
                seconds: s.secs,
                microseconds: s.micros,
            },
            ecu_id: s.ecu.clone(),
        }),
        header: StandardHeader {
            version: m.htyp >> 5,
            endianness: if m.htyp & MSBF != 0 {
                Endianness::Big
            } else {
                Endianness::Little
            },
            has_extended_header: m.htyp & UEH != 0,
            message_counter: m.mcnt,
            ecu_id: m.ecu.clone(),
            session_id: m.seid,
            timestamp: m.tmsp,
            payload_length: (m.len as usize).saturating_sub(headers_len(m.htyp)) as u16,
        },
        extended_header: m.ext.as_ref().map(|e| ExtendedHeader {
            verbose: e.msin & 1 != 0,
            argument_count: e.noar,
            message_type: message_type_of(e.msin),
            application_id: e.apid.clone(),
            context_id: e.ctid.clone(),
        }),
        payload: payload_to_crate(m),
    }
}

// ------------------------------------------------------------------------------------------------
// crate -> model (used to compare parser output with the reference decoder)

pub fn type_from_crate(t: &TypeInfo) -> RType {
    let kind = match t.kind {
        TypeInfoKind::Bool => RKind::Bool,
        TypeInfoKind::Signed(l) => RKind::Sint(l as usize as u8),
        TypeInfoKind::Unsigned(l) => RKind::Uint(l as usize as u8),
        TypeInfoKind::SignedFixedPoint(l) => RKind::SintFx(l as usize as u8),
        TypeInfoKind::UnsignedFixedPoint(l) => RKind::UintFx(l as usize as u8),
        TypeInfoKind::Float(l) => RKind::Float(l as usize as u8),
        TypeInfoKind::StringType => RKind::Str,
        TypeInfoKind::Raw => RKind::Raw,
    };
    RType {
        kind,
        vari: t.has_variable_info,
        trai: t.has_trace_info,
        scod: match t.coding {
            StringCoding::ASCII => 0,
            StringCoding::UTF8 => 1,
            StringCoding::Reserved(v) => v,
        },
    }
}
pub fn value_from_crate(v: &Value) -> RVal {
    match v {
        Value::Bool(b) => RVal::Bool(*b),
        Value::U8(v) => RVal::U(*v as u128),
        Value::U16(v) => RVal::U(*v as u128),
        Value::U32(v) => RVal::U(*v as u128),
        Value::U64(v) => RVal::U(*v as u128),
        Value::U128(v) => RVal::U(*v),
        Value::I8(v) => RVal::I(*v as i128),
        Value::I16(v) => RVal::I(*v as i128),
        Value::I32(v) => RVal::I(*v as i128),
        Value::I64(v) => RVal::I(*v as i128),
        Value::I128(v) => RVal::I(*v),
        Value::F32(f) => RVal::F32(f.to_bits()),
        Value::F64(f) => RVal::F64(f.to_bits()),
        Value::StringVal(s) => RVal::Str(s.clone()),
        Value::Raw(r) => RVal::Raw(r.clone()),
    }
}
/// width in bits of the crate value variant (to check that the variant matches the declared width)
pub fn value_bits(v: &Value) -> u8 {
    match v {
        Value::Bool(_) | Value::U8(_) | Value::I8(_) => 8,
        Value::U16(_) | Value::I16(_) => 16,
        Value::U32(_) | Value::I32(_) | Value::F32(_) => 32,
        Value::U64(_) | Value::I64(_) | Value::F64(_) => 64,
        Value::U128(_) | Value::I128(_) => 128,
        _ => 0,
    }
}
pub fn arg_from_crate(a: &Argument) -> RArg {
    RArg {
        ty: type_from_crate(&a.type_info),
        name: a.name.clone(),
        unit: a.unit.clone(),
        fixp: a.fixed_point.as_ref().map(|f| {
            (
                f.quantization.to_bits(),
                match f.offset {
                    FixedPointValue::I32(v) => v as i64,
                    FixedPointValue::I64(v) => v,
                },
            )
        }),
        val: value_from_crate(&a.value),
    }
}

/// Result of converting a crate message: network-trace payloads come back as the slices only.
pub struct FromCrate {
    pub msg: RMsg,
    pub net_slices: Option<Vec<Vec<u8>>>,
    /// a field of the crate message that the model cannot express (e.g. a value variant whose width
    /// contradicts its type info); reported by the callers as a violation
    pub inconsistent: Option<String>,
}
pub fn from_crate(m: &Message) -> FromCrate {
    let mut net = None;
    let mut inconsistent = None;
    let payload = match &m.payload {
        PayloadContent::Verbose(a) => {
            for x in a {
                let want = match x.type_info.kind {
                    TypeInfoKind::Bool => 8,
                    TypeInfoKind::Signed(l) | TypeInfoKind::Unsigned(l) => l as usize as u8,
                    TypeInfoKind::SignedFixedPoint(l)
                    | TypeInfoKind::UnsignedFixedPoint(l)
                    | TypeInfoKind::Float(l) => l as usize as u8,
                    _ => 0,
                };
                if value_bits(&x.value) != want {
                    inconsistent = Some(format!(
                        "value {:?} does not match type {:?}",
                        x.value, x.type_info.kind
                    ));
                }
            }
            RPayload::Verbose(a.iter().map(arg_from_crate).collect())
        }
        PayloadContent::NetworkTrace(s) => {
            net = Some(s.clone());
            RPayload::Verbose(vec![])
        }
        PayloadContent::NonVerbose(id, d) => RPayload::NonVerbose(*id, d.clone()),
        PayloadContent::ControlMsg(c, d) => RPayload::Control(
            match c {
                ControlType::Request => 1,
                ControlType::Response => 2,
                ControlType::Unknown(n) => *n,
            },
            d.clone(),
        ),
    };
    let h = &m.header;
    let mut htyp = (h.version & 7) << 5;
    if h.version > 7 {
        inconsistent = Some(format!("version {} does not fit 3 bits", h.version));
    }
    if h.has_extended_header {
        htyp |= UEH;
    }
    if h.endianness == Endianness::Big {
        htyp |= MSBF;
    }
    if h.ecu_id.is_some() {
        htyp |= WEID;
    }
    if h.session_id.is_some() {
        htyp |= WSID;
    }
    if h.timestamp.is_some() {
        htyp |= WTMS;
    }
    if h.has_extended_header != m.extended_header.is_some() {
        inconsistent = Some("extended-header flag and extended header disagree".to_string());
    }
    let ext = m.extended_header.as_ref().map(|e| {
        let msin = match msin_of(&e.message_type) {
            Some(b) => b,
            None => {
                inconsistent = Some(format!("non-canonical message type {:?}", e.message_type));
                0
            }
        };
        RExt {
            msin: msin | e.verbose as u8,
            noar: e.argument_count,
            apid: e.application_id.clone(),
            ctid: e.context_id.clone(),
        }
    });
    let len = headers_len(htyp) + h.payload_length as usize;
    if len > 65535 {
        inconsistent = Some(format!(
            "payload length {} exceeds the 16-bit length field",
            h.payload_length
        ));
    }
    FromCrate {
        msg: RMsg {
            storage: m.storage_header.as_ref().map(|s| RStorage {
                secs: s.timestamp.seconds,
                micros: s.timestamp.microseconds,
                ecu: s.ecu_id.clone(),
            }),
            htyp,
            mcnt: h.message_counter,
            len: len as u16,
            ecu: h.ecu_id.clone(),
            seid: h.session_id,
            tmsp: h.timestamp,
            ext,
            payload,
        },
        net_slices: net,
        inconsistent,
    }
}

// ------------------------------------------------------------------------------------------------
// bit-exact structural equality of two crate messages (PartialEq on f32/f64 is not bit-exact)

fn float_bits_arg(a: &Argument, out: &mut Vec<u64>) {
    if let Some(fp) = &a.fixed_point {
        out.push(fp.quantization.to_bits() as u64);
    }
    match &a.value {
        Value::F32(f) => out.push(f.to_bits() as u64),
        Value::F64(f) => out.push(f.to_bits()),
        _ => {}
    }
}
fn strip_floats_arg(a: &Argument) -> Argument {
    let mut a = a.clone();
    if let Some(fp) = &mut a.fixed_point {
        fp.quantization = 0.0;
    }
    match &mut a.value {
        Value::F32(f) => *f = 0.0,
        Value::F64(f) => *f = 0.0,
        _ => {}
    }
    a
}
pub fn args_eq_bits(a: &Argument, b: &Argument) -> bool {
    let (mut x, mut y) = (vec![], vec![]);
    float_bits_arg(a, &mut x);
    float_bits_arg(b, &mut y);
    x == y && strip_floats_arg(a) == strip_floats_arg(b)
}
/// `Ok(())` when the two messages are equal field for field, floats bit for bit.
pub fn msg_eq_bits(a: &Message, b: &Message) -> Result<(), String> {
    if a.storage_header != b.storage_header {
        return Err(format!(
            "storage header {:?} != {:?}",
            a.storage_header, b.storage_header
        ));
    }
    if a.header != b.header {
        return Err(format!("standard header {:?} != {:?}", a.header, b.header));
    }
    if a.extended_header != b.extended_header {
        return Err(format!(
            "extended header {:?} != {:?}",
            a.extended_header, b.extended_header
        ));
    }
    match (&a.payload, &b.payload) {
        (PayloadContent::Verbose(x), PayloadContent::Verbose(y)) => {
            if x.len() != y.len() {
                return Err(format!("{} arguments != {} arguments", x.len(), y.len()));
            }
            for (i, (p, q)) in x.iter().zip(y.iter()).enumerate() {
                if !args_eq_bits(p, q) {
                    return Err(format!(
                        "argument {}: {:?} != {:?}",
                        i,
                        short_dbg(p),
                        short_dbg(q)
                    ));
                }
            }
            Ok(())
        }
        (p, q) => {
            if p == q {
                Ok(())
            } else {
                Err(format!("payload {} != {}", short_dbg(p), short_dbg(q)))
            }
        }
    }
}
pub fn short_dbg<T: std::fmt::Debug>(t: &T) -> String {
    let s = format!("{:?}", t);
    if s.len() > 400 {
        let mut cut = 300;
        while !s.is_char_boundary(cut) {
            cut -= 1;
        }
        format!("{}...(+{} chars)", &s[..cut], s.len() - cut)
    } else {
        s
    }
}
