#!/bin/bash
# Coverage-guided tier of the thorough checks:  fuzz/campaign.sh <Cxx>
# Builds the libFuzzer targets from the judged tree (cargo +nightly fuzz build, ASan, debug assertions), runs
# fixed-work campaigns (-runs=, -seed= from VERIF_SEED) on all cores, from a generated corpus and from an empty one,
# re-judges every artifact in-process with the property's oracle (dltverif fuzz-triage: attribute, minimise under
# that oracle's signature, save a replay) and merges the campaign statistics into the evidence file.
#   byte-level targets   bytes (C02 decode, C03, C04, C16), fibex (C12), args (C13)
#   structured target    strat (C01, C02 encode, C05..C10, C15, C17..C19): input decoded into the property's Case
# exit 0 nothing confirmed / 1 VIOLATION printed / 2 infrastructure trouble (never a verdict)
set -u
PROP="${1:?property id}"
ROOT="$(cd "$(dirname "$0")/.." && pwd)"
SEED="${VERIF_SEED:-0}"
SCALE="${DLTVERIF_FUZZ_SCALE:-1}"
HARNESS="${DLTVERIF_HARNESS_DIR:-$ROOT/harness}"; FUZZ="${DLTVERIF_FUZZ_DIR:-$ROOT/fuzz}"; OUT="${DLTVERIF_OUT:-$ROOT}"
BIN="$HARNESS/target/release/dltverif"
# target:runs-per-process:max_len:extra libFuzzer flags
case "$PROP" in
  C02) PLAN="bytes:1500000:4096: strat:80000:2048:";;
  C03|C04|C16) PLAN="bytes:1500000:4096:";;
  C12) PLAN="fibex:150000:8192:-timeout=5";;
  C13) PLAN="args:2000000:256:";;
  C01|C06|C15) PLAN="strat:80000:2048:";;
  C05) PLAN="strat:30000:2048:";;   # every execution enumerates all cut positions of its message (about 40 exec/s under ASan)
  C07|C08|C10) PLAN="strat:60000:2048:";;
  C09) PLAN="strat:200000:1024:";;   # a quarter of the cases also run a stream of siblings through one reader
  C17|C18) PLAN="strat:2000000:512:";;
  C19) PLAN="strat:300000:512:";;    # an id case parses the message under 3 filters x 3 junk prefixes x every cut inside the id fields
  *) exit 0;;   # no coverage-guided tier for this property
esac
export CARGO_NET_OFFLINE=true
WORK="$ROOT/work/fuzz-$PROP-$$"
mkdir -p "$WORK"
ALLPIDS=()
cleanup() {
  rm -rf "$WORK"
  for p in "${ALLPIDS[@]:-}"; do [ -n "$p" ] && rm -rf /dev/shm/dltverif-fuzz-"$p".xml /dev/shm/dltverif-"$p"-* 2>/dev/null; done
}
trap cleanup EXIT
RC=0; FUZZJSON=""
for ENTRY in $PLAN; do
  IFS=: read -r TARGET RUNS MAXLEN EXTRA <<<"$ENTRY"
  RUNS=$((RUNS*SCALE))
  if ! cargo +nightly fuzz build --fuzz-dir "$FUZZ" "$TARGET" >"$WORK/build.log" 2>&1; then
    echo "INCONCLUSIVE property=$PROP the libFuzzer target $TARGET does not build (cargo +nightly fuzz build); see below" >&2
    tail -n 30 "$WORK/build.log" >&2
    exit 2
  fi
  EXE="$FUZZ/target/x86_64-unknown-linux-gnu/release/$TARGET"
  [ -x "$EXE" ] || { echo "INCONCLUSIVE property=$PROP fuzz binary missing" >&2; exit 2; }
  rm -rf "$WORK/seedcorpus"
  "$BIN" gen-corpus "$TARGET" "$WORK/seedcorpus" >/dev/null || { echo "INCONCLUSIVE property=$PROP corpus generation failed" >&2; exit 2; }
  DICT=""; [ -f "$ROOT/fuzz/dict/$TARGET.dict" ] && DICT="-dict=$ROOT/fuzz/dict/$TARGET.dict"
  START=$(date +%s)
  PIDS=()
  launch() { # index corpus-kind runs max_len
    local k=$1 kind=$2 runs=$3 maxlen=$4
    local d="$WORK/$TARGET-p$k"; mkdir -p "$d/corpus" "$d/artifacts"
    [ "$kind" = "seeded" ] && cp "$WORK/seedcorpus"/* "$d/corpus/" 2>/dev/null
    ( cd "$d" && DLTVERIF_ORACLE="$PROP" exec "$EXE" "$d/corpus" -runs="$runs" -seed=$((SEED*1000+k+1)) -len_control=0 -max_len="$maxlen" \
        -rss_limit_mb=4096 -artifact_prefix="$d/artifacts/" -print_final_stats=1 $DICT $EXTRA >"$d/log" 2>&1 ) &
    PIDS+=($!); ALLPIDS+=($!)
  }
  N=0
  for k in $(seq 0 11); do launch $N seeded "$RUNS" "$MAXLEN"; N=$((N+1)); done
  for k in $(seq 0 3); do launch $N empty "$RUNS" "$MAXLEN"; N=$((N+1)); done
  for p in "${PIDS[@]}"; do wait "$p"; done
  if [ "$PROP" = "C03" ] && [ "$TARGET" = "bytes" ]; then
    # second pass for the > 64 KiB clause
    PIDS=()
    for k in $(seq 0 7); do launch $N seeded $((40000*SCALE)) 70000; N=$((N+1)); done
    for p in "${PIDS[@]}"; do wait "$p"; done
  fi
  ELAPSED=$(( $(date +%s) - START ))
  EXECS=0; for f in "$WORK/$TARGET"-p*/log; do e=$(grep -o 'stat::number_of_executed_units: [0-9]*' "$f" | grep -o '[0-9]*$' | tail -1); EXECS=$((EXECS + ${e:-0})); done
  CORPUS=$(cat "$WORK/$TARGET"-p*/corpus/* 2>/dev/null | wc -c)
  NCORP=$(ls "$WORK/$TARGET"-p*/corpus 2>/dev/null | wc -l)
  ARTIFACTS=0; CONFIRMED=0; UNCONFIRMED=0; SLOW=0
  for a in "$WORK/$TARGET"-p*/artifacts/*; do
    [ -f "$a" ] || continue
    ARTIFACTS=$((ARTIFACTS+1))
    case "$(basename "$a")" in
      slow-unit-*) ARTIFACTS=$((ARTIFACTS-1)); SLOW=$((SLOW+1)); continue;;   # libFuzzer's note about a slow input, not a failure
      oom-*|leak-*) echo "INCONCLUSIVE property=$PROP libFuzzer reported $(basename "$a") (memory limit); not a verdict about the property" >&2; mkdir -p "$OUT/replays"; cp "$a" "$OUT/replays/$PROP-fuzz-$(basename "$a")"; [ $RC -eq 0 ] && RC=2; continue;;
    esac
    TOUT=$("$BIN" fuzz-triage "$PROP" "$TARGET" "$a"); T=$?
    echo "$TOUT"
    if [ $T -eq 1 ]; then CONFIRMED=$((CONFIRMED+1)); RC=1
    elif [ $T -eq 3 ]; then
      UNCONFIRMED=$((UNCONFIRMED+1))
      case "$(basename "$a")" in
        crash-*) # crashed under libFuzzer/ASan but the in-process oracle accepts it: keep the raw input, report for C03 only
          if [ "$PROP" = "C03" ]; then mkdir -p "$OUT/replays"; cp "$a" "$OUT/replays/C03-fuzz-asan-$(basename "$a")"; tail -n 25 "$(dirname "$a")/../log" >&2
            echo "VIOLATION property=C03 replay=$OUT/replays/C03-fuzz-asan-$(basename "$a")"; echo "  sanitizer-only failure of the fuzz target (see the log above); replay with: $EXE <file>"; RC=1; fi;;
      esac
    fi
  done
  python3 - "$OUT/evidence/$PROP.json" <<PY
import json, sys
p = sys.argv[1]
try:
    e = json.load(open(p))
except Exception:
    sys.exit(0)
e["coverage"].setdefault("fuzz", {})["$TARGET"] = {"engine": "libFuzzer (cargo-fuzz, AddressSanitizer, debug assertions)", "oracle_in_target": "$PROP",
  "input_decoding": "hand-written data provider -> the property's Case (harness/src/props/structured.rs)" if "$TARGET" == "strat" else "byte-level (mode byte + buffer / document / signal list + payload)",
  "processes": $N, "runs_per_process": $RUNS, "executions": $EXECS, "seed_corpus": "12 processes from a generated corpus, 4 from an empty corpus",
  "final_corpus_files": $NCORP, "final_corpus_bytes": $CORPUS, "artifacts": $ARTIFACTS, "confirmed_violations": $CONFIRMED, "candidates_not_confirmed": $UNCONFIRMED, "slow_units_noted": $SLOW, "wall_s": $ELAPSED}
e["wall_s"] = round(e.get("wall_s", 0) + $ELAPSED, 3)
if $CONFIRMED: e["violations"] = e.get("violations", 0) + $CONFIRMED
json.dump(e, open(p, "w"), indent=1)
PY
  echo "FUZZ property=$PROP target=$TARGET processes=$N executions=$EXECS artifacts=$ARTIFACTS confirmed=$CONFIRMED wall_s=$ELAPSED"
done
exit $RC
