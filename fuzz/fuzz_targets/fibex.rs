#![no_main]
//! libFuzzer target `fibex`: bytes = one FIBEX document, written to a tmpfs file and loaded (C12).
//! A panic fails the target; hangs surface through libFuzzer's -timeout and are re-judged by the
//! CPU-budget evaluator before they are reported.
use libfuzzer_sys::fuzz_target;
use std::path::PathBuf;
use std::sync::OnceLock;

static PATH: OnceLock<PathBuf> = OnceLock::new();

fuzz_target!(|data: &[u8]| {
    let path = PATH.get_or_init(|| {
        let base = if std::path::Path::new("/dev/shm").is_dir() { PathBuf::from("/dev/shm") } else { std::env::temp_dir() };
        base.join(format!("dltverif-fuzz-{}.xml", std::process::id()))
    });
    if let Err(v) = dltverif::oracle::fuzz_fibex(data, path) {
        eprintln!("VIOLATION-IN-TARGET property=C12 signature={}\n  {}", v.sig, v.msg);
        let _ = std::fs::remove_file(path);
        std::process::abort();
    }
});
