#![no_main]
//! libFuzzer target `args`: byte order + signal-type list + payload for construct_arguments (C13),
//! judged against the reference decode of packed fields.
use libfuzzer_sys::fuzz_target;

fuzz_target!(|data: &[u8]| {
    if let Err(v) = dltverif::oracle::fuzz_args(data) {
        eprintln!("VIOLATION-IN-TARGET property=C13 signature={}\n  {}", v.sig, v.msg);
        std::process::abort();
    }
});
