#![no_main]
//! libFuzzer target `strat`: structured fuzzing of one property (DLTVERIF_ORACLE=Cxx).  The input bytes are the
//! entropy source of that property's proptest strategy (pass-through RNG); the oracle is the property's `check`.
use libfuzzer_sys::fuzz_target;
use std::sync::OnceLock;

static ORACLE: OnceLock<String> = OnceLock::new();

fuzz_target!(|data: &[u8]| {
    let prop = ORACLE.get_or_init(|| std::env::var("DLTVERIF_ORACLE").unwrap_or_else(|_| "C01".to_string()));
    if let Some(o) = dltverif::props::structured::run(prop, data, false) {
        if let Err(v) = o.result {
            eprintln!("VIOLATION-IN-TARGET property={} signature={}\n  {}", prop, v.sig, v.msg);
            std::process::abort();
        }
    }
});
