#![no_main]
//! libFuzzer target `strat`: structured fuzzing of one property (DLTVERIF_ORACLE=Cxx).  The input bytes are
//! decoded by a hand-written data-provider layer (harness/src/props/structured.rs) into the property's `Case`
//! (well-formed message, schedule, filter ...); the oracle is the property's own `check`.
use libfuzzer_sys::fuzz_target;
use std::sync::OnceLock;

static ORACLE: OnceLock<String> = OnceLock::new();

fuzz_target!(|data: &[u8]| {
    let prop = ORACLE.get_or_init(|| std::env::var("DLTVERIF_ORACLE").unwrap_or_else(|_| "C01".to_string()));
    if let Some(o) = dltverif::props::structured::run(prop, data) {
        if let Err(v) = o.result {
            eprintln!("VIOLATION-IN-TARGET property={} signature={}\n  {}", prop, v.sig, v.msg);
            std::process::abort();
        }
    }
});
