#![no_main]
//! libFuzzer target `bytes`: first byte = mode bits, rest = buffer handed to the slice parsers.
//! The semantic oracle runs inside the target; DLTVERIF_ORACLE selects which property can fail
//! the campaign (C02 decode differential, C03 no-panic + post-conditions, C04 consumption, C16 fixpoint).
use libfuzzer_sys::fuzz_target;
use std::sync::OnceLock;

static ORACLE: OnceLock<String> = OnceLock::new();

fuzz_target!(|data: &[u8]| {
    let prop = ORACLE.get_or_init(|| std::env::var("DLTVERIF_ORACLE").unwrap_or_else(|_| "C03".to_string()));
    if let Err(v) = dltverif::oracle::fuzz_bytes(prop, data) {
        eprintln!("VIOLATION-IN-TARGET property={} signature={}\n  {}", prop, v.sig, v.msg);
        std::process::abort();
    }
});
