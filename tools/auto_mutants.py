#!/usr/bin/env python3
"""Syntactic mutation sweep (a complement to the agent-written seeded changes).

  tools/auto_mutants.py list                       print the number of candidate mutants
  tools/auto_mutants.py run <slot> <first> <count> [scale]
        judge candidates first..first+count-1 (in the fixed shuffled order) in scratch worktree /tmp/mt/auto<slot>:
        1. apply the one-token change to a clean worktree of /repo's HEAD
        2. `cargo test --offline` (54 tests) and `--all-features` (63 tests): a mutant the existing suite kills is
           not interesting (status "killed-by-suite"); a mutant that does not compile is dropped
        3. run the quick checks (DLTVERIF_SCALE=<scale>, default 0.25) of all 19 properties against the mutated tree;
           the first check that reports a VIOLATION "detects" it; exit code 2 counts as "inconclusive"
        results are appended to /verif/mutation/results.jsonl (one JSON object per mutant).

Nothing is written to /repo.  The operators are deliberately small (relational, arithmetic, boolean, constants, early
return removal): they model slips, not redesigns; survivors need human triage (many are equivalent or touch behaviour
no listed property fixes).
"""
import hashlib, json, os, random, re, subprocess, sys, time

REPO = "/repo"
ROOT = os.path.dirname(os.path.dirname(os.path.abspath(__file__)))
FILES = ["src/parse.rs", "src/dlt.rs", "src/read.rs", "src/stream.rs", "src/filtering.rs", "src/statistics.rs", "src/fibex/mod.rs"]
PROPS = ["C%02d" % i for i in range(1, 20)]

OPS = [
    (r" < ", " <= "), (r" <= ", " < "), (r" > ", " >= "), (r" >= ", " > "), (r" == ", " != "), (r" != ", " == "),
    (r" && ", " || "), (r" \|\| ", " && "),
    (r" \+ ", " - "), (r" - ", " + "),
    (r"\btrue\b", "false"), (r"\bfalse\b", "true"),
    (r" \+ 1\b", " + 2"), (r" - 1\b", ""), (r" \+ 1\b", ""),
    (r"\b0b111\b", "0b11"), (r"\b0b1111\b", "0b111"),
    (r">> 4", ">> 3"), (r">> 1\b", ">> 2"), (r"<< 1\b", "<< 2"),
    (r"\.is_some\(\)", ".is_none()"), (r"\.is_none\(\)", ".is_some()"),
    (r"\.is_empty\(\)", ".len() == 1"),
    (r"\.min\(", ".max("), (r"\.max\(", ".min("), (r" as u16\b", " as u8 as u16"), (r"wrapping_add", "wrapping_sub"), (r"saturating_sub", "wrapping_sub"),
    (r"\.contains\(", ".starts_with_none("),
    (r"BigEndian", "LittleEndian"), (r"be_u16", "le_u16"), (r"be_u32", "le_u32"), (r"le_u32", "be_u32"),
    (r"write_u16", "write_i16"),
    (r"\b4usize\b", "5usize"), (r"\b2usize\b", "3usize"),
    (r"\bu16::MAX\b", "u16::MAX - 1"), (r"\bu8::MAX\b", "u8::MAX - 1"),
    (r"sort_by_key\(\|(\w)\| \1\.0\)", r"sort_by_key(|\1| std::cmp::Reverse(\1.0))"),
    (r"\.or_insert", ".or_insert"),  # placeholder (no-op, skipped)
    (r"return Ok\(", "let _ = Ok::<(), ()>(()); return Ok("),  # placeholder (no-op semantic) skipped
]
OPS = [o for o in OPS if o[1] not in (".or_insert", ".starts_with_none(") and not o[1].startswith("let _ = Ok")]


SOURCE = REPO  # where candidate lines are read from (the clean scratch worktree while a run is going on)


def production_lines(path):
    """(line number, text) of lines outside #[cfg(test)] modules, comments, log calls and attribute lines"""
    out = []
    text = open(os.path.join(SOURCE, path)).read().split("\n")
    in_test = False
    depth = 0
    test_depth = None
    for i, l in enumerate(text):
        s = l.strip()
        if s.startswith("#[cfg(test)]"):
            in_test = True
            test_depth = None
        if in_test:
            opens, closes = l.count("{"), l.count("}")
            if test_depth is None and opens:
                test_depth = 0
            if test_depth is not None:
                test_depth += opens - closes
                if test_depth <= 0 and (opens or closes):
                    in_test = False
            continue
        if not s or s.startswith("//") or s.startswith("#[") or s.startswith("///") or s.startswith("use "):
            continue
        if re.match(r"(trace|warn|debug|info|error)!\(", s) or s.startswith('"') or "format!(" in s and "Error" in s:
            continue
        out.append((i, l))
    return out


def literal_mutants(code):
    """integer literals in match arms and constant definitions: decimal n -> n+1, binary / hex -> neighbouring bit"""
    out = []
    if "=>" not in code and "const " not in code:
        return out
    for m in re.finditer(r"(?<![\w.])(0b[01_]+|0x[0-9a-fA-F_]+|[0-9]+)(?![\w.])", code):
        t = m.group(1)
        if t.startswith("0b") or t.startswith("0x"):
            base = 2 if t.startswith("0b") else 16
            v = int(t[2:].replace("_", ""), base)
            nv = (v << 1) if v and v < (1 << 30) else v + 1
            new = ("0b{:b}" if base == 2 else "0x{:x}").format(nv)
        else:
            v = int(t)
            if v > 100000:
                continue
            new = str(v + 1)
        out.append((m.start(), m.end(), new, "literal %s -> %s" % (t, new)))
    return out


def line_mutants(code):
    """second wave: condition negation, statement deletion, compound-assignment flips"""
    out = []
    m = re.match(r"^(\s*(?:\} else )?if )(?!let )(.+) \{\s*$", code)
    if m:
        out.append((m.group(1) + "!(" + m.group(2) + ") {", "negate condition"))
    st = code.strip()
    if st.endswith(";") and not re.match(r"(let |return|use |pub |const |static |type |fn |break|continue|\}|//)", st) and "=>" not in st and not st.startswith("#") and st.count("(") == st.count(")"):
        if re.match(r"[A-Za-z_][\w.\[\]]*\s*(\+=|-=|\|=|=)[^=]", st) or re.match(r"[A-Za-z_][\w.:]*\(.*\);$", st) or re.match(r"[a-z_][\w.]*\.[a-z_]+\(.*\);$", st):
            out.append((code[: len(code) - len(code.lstrip())] + "{}", "delete statement"))
    for (pat, rep) in [(r" \+= ", " -= "), (r" -= ", " += "), (r" \|= ", " &= ")]:
        for mm in re.finditer(pat, code):
            out.append((code[: mm.start()] + rep + code[mm.end():], "%s -> %s" % (pat.strip(), rep.strip())))
    return out


def arm_mutants(f, lines):
    """third wave: single-line match arms - delete one (falls through to the wildcard arm; matches without one do not
    compile and are dropped), swap the right-hand sides of two adjacent arms, and `= Some(..)` / `Some(..)` results -> None"""
    out = []
    arm = re.compile(r"^(\s*)([^=/{}][^=]*?) => ([^{}]+),\s*$")
    for k, (i, l) in enumerate(lines):
        m = arm.match(l)
        if m and m.group(2).strip() != "_":
            out.append({"file": f, "line": i + 1, "old": l, "new": "", "op": "delete match arm"})
            if k + 1 < len(lines) and lines[k + 1][0] == i + 1:
                m2 = arm.match(lines[k + 1][1])
                if m2 and m2.group(2).strip() != "_" and m2.group(3) != m.group(3):
                    out.append({"file": f, "line": i + 1, "old": l, "new": "%s%s => %s," % (m.group(1), m.group(2), m2.group(3)),
                                "line2": i + 2, "old2": lines[k + 1][1], "new2": "%s%s => %s," % (m2.group(1), m2.group(2), m.group(3)), "op": "swap adjacent arm results"})
        m = re.match(r"^(\s*[\w.#]+ = )Some\((.+)\);\s*$", l)
        if m:
            out.append({"file": f, "line": i + 1, "old": l, "new": m.group(1) + "None;", "op": "Some(..) -> None"})
    return out


def candidates():
    c = []
    for f in FILES:
        if os.environ.get("AUTO_WAVE") == "3":
            c.extend(arm_mutants(f, production_lines(f)))
            continue
        for (i, l) in production_lines(f):
            code = l.split("//")[0]
            if os.environ.get("AUTO_WAVE") == "2":
                for (new, op) in line_mutants(code.rstrip()):
                    c.append({"file": f, "line": i + 1, "old": l, "new": new, "op": op})
                continue
            for (a, b, new, op) in literal_mutants(code):
                c.append({"file": f, "line": i + 1, "old": l, "new": code[:a] + new + code[b:] + l[len(code):], "op": op})
            for (pat, rep) in OPS:
                for m in re.finditer(pat, code):
                    # skip generics / lifetimes for relational operators
                    new = code[:m.start()] + m.expand(rep) + code[m.end():] + l[len(code):]
                    if new != l:
                        c.append({"file": f, "line": i + 1, "old": l, "new": new, "op": "%s -> %s" % (pat, rep)})
    # fixed order independent of list construction: sort by a hash
    for x in c:
        x["id"] = hashlib.sha1(("%s:%d:%s:%s" % (x["file"], x["line"], x["op"], x["new"])).encode()).hexdigest()[:10]
    c.sort(key=lambda x: x["id"])
    return c


def sh(cmd, cwd=None, env=None, timeout=3600):
    try:
        p = subprocess.run(cmd, cwd=cwd, env=env, shell=True, capture_output=True, text=True, timeout=timeout)
        return p.returncode, p.stdout + p.stderr
    except subprocess.TimeoutExpired:
        return 124, "timeout"


def run(slot, first, count, scale):
    wt = "/tmp/mt/auto%s" % slot
    os.makedirs("/tmp/mt", exist_ok=True)
    if not os.path.isdir(wt):
        sh("git -C %s worktree add -q --detach %s HEAD" % (REPO, wt))
    outdir = os.path.join(ROOT, "mutation")
    os.makedirs(outdir, exist_ok=True)
    results = os.path.join(outdir, "results.jsonl")
    done = set()
    import glob
    for fn in glob.glob(os.path.join(outdir, "*.jsonl")):
        for l in open(fn):
            try:
                done.add(json.loads(l)["id"])
            except Exception:
                pass
    env = dict(os.environ, CARGO_NET_OFFLINE="true", DLTVERIF_REPO=wt, DLTVERIF_OUT="/tmp/mt/autoout%s" % slot, DLTVERIF_SCALE=str(scale), CARGO_BUILD_JOBS="6")
    os.makedirs(env["DLTVERIF_OUT"], exist_ok=True)
    # (read the candidate lines from the clean worktree, not from /repo: an official mutant trial may have /repo patched)
    global SOURCE
    sh("git checkout -q -- .", cwd=wt)
    SOURCE = wt
    cands = candidates()
    for m in cands[first:first + count]:
        if m["id"] in done:
            continue
        sh("git checkout -q -- .", cwd=wt)
        path = os.path.join(wt, m["file"])
        lines = open(path).read().split("\n")
        if lines[m["line"] - 1] != m["old"]:
            continue
        lines[m["line"] - 1] = m["new"]
        if "line2" in m:
            if lines[m["line2"] - 1] != m["old2"]:
                continue
            lines[m["line2"] - 1] = m["new2"]
        open(path, "w").write("\n".join(lines))
        rec = dict(m)
        t0 = time.time()
        rc, out = sh("cargo test --workspace --no-fail-fast --offline 2>&1 | tail -30", cwd=wt, env=env, timeout=1200)
        if "error[" in out or "error: could not compile" in out:
            rec["status"] = "does-not-compile"
        elif "54 passed; 0 failed" not in out:
            rec["status"] = "killed-by-suite"
        else:
            rc, out = sh("cargo test --all-features --offline 2>&1 | grep -E '^test result' | head -1", cwd=wt, env=env, timeout=1200)
            if "63 passed; 0 failed" not in out:
                rec["status"] = "killed-by-suite(all-features)"
            else:
                rec["status"] = "survived"
                rec["checks"] = {}
                for p in PROPS:
                    rc, out = sh("./check %s quick 2>&1 | grep -a -E '^(VIOLATION|OK|INCONCLUSIVE|BUILD-FAILED)' | head -1" % p, cwd=ROOT, env=env, timeout=2400)
                    if out.startswith("VIOLATION"):
                        rec["status"] = "detected"
                        rec["detected_by"] = p
                        break
                    if out.startswith("BUILD-FAILED"):
                        rec["status"] = "does-not-compile(harness)"
                        break
                    rec["checks"][p] = "inconclusive" if out.startswith("INCONCLUSIVE") else "ok"
        rec["seconds"] = int(time.time() - t0)
        rec.pop("old", None)
        rec.pop("old2", None)
        open(results, "a").write(json.dumps(rec) + "\n")
        print("%s %s:%d [%s] -> %s %s (%ds)" % (m["id"], m["file"], m["line"], m["op"], rec["status"], rec.get("detected_by", ""), rec["seconds"]), flush=True)
    sh("git checkout -q -- .", cwd=wt)


if __name__ == "__main__":
    if len(sys.argv) >= 2 and sys.argv[1] == "list":
        c = candidates()
        print(len(c), "candidates")
        by = {}
        for x in c:
            by[x["file"]] = by.get(x["file"], 0) + 1
        print(by)
    elif len(sys.argv) >= 5 and sys.argv[1] == "run":
        run(sys.argv[2], int(sys.argv[3]), int(sys.argv[4]), float(sys.argv[5]) if len(sys.argv) > 5 else 0.25)
    else:
        print(__doc__)
