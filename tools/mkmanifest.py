#!/usr/bin/env python3
"""Regenerates /verif/MANIFEST.json from the table below (kept as a script so the file stays consistent)."""
import json, os
ROOT = os.path.dirname(os.path.dirname(os.path.abspath(__file__)))

# id -> (category, technique, level text, level note, design ref)

# properties whose thorough tier also runs the structured libFuzzer target (fuzz/fuzz_targets/strat.rs)
STRAT = ["C01", "C02", "C05", "C06", "C07", "C08", "C09", "C10", "C15", "C17", "C18", "C19"]
STRAT_TECH = "; thorough tier adds coverage-guided structured fuzzing (libFuzzer, input bytes decoded into the property's case, same oracle)"
STRAT_TEXT = " Thorough additionally runs a coverage-guided libFuzzer campaign whose input is decoded by a hand-written data provider into this property's case and judged by the same oracle."
CHECKS = {
 "C01": ("exploration", "property-based testing (proptest): round trip + suffix metamorphic relation over constructed well-formed messages",
         "Seeded random search with shrinking over well-formed messages built by construction (all 32 header-flag combinations, every message-type family, every payload kind, every argument kind/width/coding, boundary lengths up to 65535) x two suffixes; the crate's serialisation is parsed back and compared field for field (floats by bits), the remainder must be exactly the suffix. Absence of a counter-example in 200k (quick) / 3M (thorough) generated cases, not a proof. Call histories on one thread are part of every case: a damaged copy parsed first, an ill-formed value serialised first, the other-byte-order twin of the message serialised in between. Argument lists contain related neighbours (differing in one field only, names that extend each other, repeats, texts that collide under common 32-bit string hashes); header fields are related on purpose in about a tenth of the messages (equal ids in two roles, prefixes, a session id that spells the ECU id, carried records that continue their carrier).",
         "Trusts the generator's notion of 'well-formed' (DESIGN.md 3.1, taken clause by clause from the quantifier) and the structural comparator; errors made consistently in writer and reader are C02's job.", "DESIGN.md 4/C01"),
 "C02": ("exploration", "differential testing against an independently written reference codec (proptest grid + random + hostile bytes; libFuzzer in the thorough tier)",
         "Encode: a systematic grid over all 32 flag combinations x 256 MSIN bytes x 2 storage modes plus free random messages, crate bytes compared byte for byte with the reference encoder. Decode: hostile byte strings (canonical, wire-level dialect, mutated, arbitrary, > 64 KiB) judged in both storage modes against the reference decoder's verdict (fields + consumed length / incomplete / reject). Thorough adds a coverage-guided byte-level libFuzzer campaign (target bytes) with the same oracle in the target.",
         "The reference codec (harness/src/refcodec.rs) is the trusted description of the AUTOSAR layout and of the accepted dialect; in the overlap 'too short and length field inconsistent' both verdicts are accepted.", "DESIGN.md 3.2, 4/C02"),
 "C03": ("exploration", "property-based testing + coverage-guided fuzzing (libFuzzer, ASan) with post-condition oracle under catch_unwind and overflow checks",
         "Every slice-level entry point is called on hostile byte strings (incl. > 64 KiB and > 1 MiB in one slice, truncated, bit-flipped, length-corrupted) in all storage/filter modes (7 fixed filter configurations and generated ones through both conversions) with a Trace-level logger installed and dlt-core's debug feature compiled in; panics and arithmetic overflow are observed through catch_unwind with overflow-checks on, returned remainders must lie inside the input, returned messages are re-serialised, measured and validated. Thorough adds libFuzzer campaigns (AddressSanitizer) incl. a -max_len=70000 pass. Every check runs in a supervised child process: an input that kills the process (stack overflow, abort) is re-found by a tracked second run and reported with that input as the replay; periodic inputs (a short unit repeated up to 1.2 MB) are part of the generator; the harness logger is itself a DLT sink that serialises and parses a message inside the log call.",
         "Trusts catch_unwind + overflow-checks + (thorough) ASan to make memory/arithmetic errors visible; out-of-bounds reads that neither panic nor trip ASan would be missed.", "DESIGN.md 4/C03"),
 "C04": ("exploration", "property-based testing + libFuzzer: consumption oracle computed from the raw bytes, filter metamorphic relation",
         "On hostile inputs biased to parseable-but-inconsistent messages, every Ok result of dlt_message under 9 filter configurations and of dlt_consume_msg is compared with the consumption computed from the raw bytes only (first pattern offset + 16 + big-endian LEN); all filters must leave the same remainder; iteration must terminate within len/4+2 steps.",
         "Trusts the raw-byte computation of the declared message end (pattern search, LEN at offset 2, HTYP flags).", "DESIGN.md 4/C04"),
 "C05": ("exploration", "property-based testing with per-case exhaustive enumeration of all cut positions",
         "For generated well-formed messages every proper prefix (all cut positions for messages <= 4 KiB; field-map-guided cuts beyond) must be reported IncompleteParse with a hint between 1 and the number of missing bytes, by the parser and by the skipper. 150k messages quick, 2M messages thorough (each with all its prefixes).",
         "Trusts the generator of well-formed messages; cut positions of messages > 4 KiB are sampled along the field map, not exhaustive.", "DESIGN.md 4/C05"),
 "C06": ("exploration", "property-based testing against a naive search reference + junk-prefix metamorphic relation",
         "The pattern search is compared with a naive first-occurrence search on arbitrary / low-entropy / 70 KB / multi-megabyte inputs with planted patterns, and bounded-exhaustively with the pattern placed around every power-of-two block boundary from 16 B to 2 MiB; junk ++ message ++ suffix must parse like message ++ suffix, without a filter and under 7 filter configurations (kept and filtered-out results alike); streams with junk between messages must be recovered completely and in order (with a filter: one result per message). Payloads carrying runs of complete stored records (log-in-log) and a reused-buffer history are part of the generator.",
         "Junk is pattern-free by construction (scrubbed); relies on 'DLT\\x01' having no border.", "DESIGN.md 4/C06"),
 "C07": ("exploration", "property-based testing over generated read schedules and fault placements against a slice-cutting reference",
         "The harness owns the byte source: generated sequences of short reads, single and long runs (2..5000) of ErrorKind::Interrupted, plus systematic constant-chunk schedules (1..64, with/without interruption before every read) over well-formed, truncated, hostile, hostile-length and long streams (hundreds to thousands of messages, large messages), read through ::new and through with_capacity readers down to buffers exactly as long as the longest declared message; the outcome sequence of read_message and next_message_slice must equal cutting the stream at the declared lengths and parsing each piece; no panic, bounded number of calls. Streams include bursts (one message repeated with single header fields changed) and records that carry other records; a second filter configuration may be passed at every other call of one reader, through one configuration object that is edited in place; behind a declared length below 4 the outcomes must not depend on the fragmentation.",
         "Schedules are sampled (plus the systematic family), not exhausted; for a declared length < 4 only no-panic / termination / prefix delivery is asserted, as the statement fixes nothing more.", "DESIGN.md 4/C07"),
 "C08": ("exploration", "differential testing async vs blocking reader over generated poll schedules on a hand-rolled executor",
         "Generated sequences of Poll::Pending (single and long runs) / Poll::Ready(k) (source wakes before Pending) plus systematic schedules, over the streams and reader constructions of C07 (incl. tight with_capacity readers and long streams); the async reader is polled with a poll budget and its outcome sequence (messages by bits, error class, end) must equal the blocking reader's on an always-ready source. The executor counts wake-ups: a poll that returns Pending although nothing woke the task is a lost wake-up; a second filter configuration may be passed at every other call, through one configuration object that is edited in place.",
         "The blocking reader is the reference (C07 decides its own conformance); real reactor timing is out of scope; a poll budget, not wall-clock, decides 'never completes'.", "DESIGN.md 4/C08"),
 "C09": ("exploration", "property-based testing against an independent decision procedure written from the statement",
         "Filter configurations (every criterion absent/present, all level numbers, empty/duplicate/hitting/missing id lists, near-miss ids such as ids longer than the 4-byte wire field, counts around the set sizes, both From conversions) x well-formed messages x suffix; the drop/keep decision, the FilteredOut payload length, the remainder and the equality of kept messages with the unfiltered parse are checked, also through read_message. A quarter of the cases also run as a stream of siblings (one header field changed) through one reader and repeated slice parsing, each verdict judged on its own; a third of the processed configurations are struct literals or rewritten after conversion.",
         "Trusts the decision procedure in harness/src/props/c09.rs (transcribed from the statement).", "DESIGN.md 4/C09"),
 "C10": ("exploration", "model-based property testing: independent tally + merge histories generated as operation vectors",
         "Streams of 0..40 messages over a small id pool; a recording collector must see each message exactly once with its decoded headers; StatisticInfoCollector must equal an independent tally; merging the parts of a split stream along a generated history (permutation + (receiver, donor) merge sequence) must equal the statistics of the whole. The id pool contains one string in several roles and two spellings of one name.",
         "Trusts the tally in harness/src/props/c10.rs; histories are sampled.", "DESIGN.md 4/C10"),
 "C11": ("exploration", "property-based testing: independent model assembly + layout metamorphic relation",
         "Generated abstract FIBEX models rendered under two independent layouts (1..4 files listed in an order that differs from the lexicographic path order, element and child order, prefixes, reference style, noise; ids also longer than 4 bytes / multi-byte); gather_fibex_data must equal the independent assembly and both layouts must load equally; extract_metadata lookups are checked for present and absent ids. Layouts also document (DESC) elements whose description is not part of the model and give files modification times in the past and in the future; a reload history rewrites files in place.",
         "Document shapes the statement is silent about are not generated (listed in the evidence assumptions); trusts the vocabulary table in harness/src/gen/fibex.rs.", "DESIGN.md 4/C11"),
 "C12": ("fault_enumeration", "fault injection with per-document exhaustive truncation, element/attribute deletion and byte corruption, judged in a child process by consumed CPU time",
         "Every truncation offset of both sample files and of generated document sets; every document that is a sequence of at most 4 (thorough: 5) of 33 markup tokens, among them comments that are complete and comments shorter than their delimiters (bounded-exhaustive); sampled subtree / tag / attribute deletions, byte corruptions, duplicated slices, combinations of up to three damages, 'element-level damage, then every truncation offset behind it', damaged members of multi-file sets and special path sets; each load runs in an evaluator child and must answer model/refused within 10 s of CPU; panic, child death or budget exhaustion is a violation. Thorough adds a libFuzzer campaign on document bytes whose hang candidates are re-judged by the same evaluator. Files also carry modification times in the past and in the future.",
         "Non-termination is decided by a CPU-time budget (10^4 x the normal cost), not proved; damage other than truncation is sampled.", "DESIGN.md 2.5, 4/C12"),
 "C13": ("exploration", "property-based testing against a reference packing, with exhaustive truncation per case (+ libFuzzer in the thorough tier)",
         "Lists of supported signal types with values are packed by a reference encoder in the stated byte order; exact and exact+trailing payloads must decode to one bit-equal argument per type carrying the given type info, every proper truncation and a string made invalid UTF-8 at every byte position in turn must be refused, lists of up to 300 signals, fixed-point kinds must not panic. Bounded-exhaustive section: every trailing length 0..=1300 behind a closing string/raw field of 0..=5 bytes.",
         "Strings are compared modulo one final NUL (left open by the statement); fixed-point decoding is not asserted.", "DESIGN.md 4/C13"),
 "C14": ("exploration", "bounded-exhaustive enumeration of the finite code spaces against the bit layout (thorough: all 2^32 type-info words)",
         "All 256 HTYP bytes and all 256 MSIN bytes are decoded, compared with the layout tables and re-encoded; type-info words: quick enumerates bits 0-17 completely x 1024 patterns of the unused upper bits, thorough enumerates all 2^32 words (exhaustive: true); acceptance must equal the reference predicate, re-encoding must decode to the same description, differ only in unused bits and be byte-reversal symmetric. HTYP and MSIN are also judged inside messages: all header types in 4 ECU fillings x storage x 8 filters x 3 payload forms (incl. arguments written in the other byte order), all message-info bytes decoded by the parser and re-encoded by rebuilding the message from its decoded parts.",
         "Trusts the layout tables in harness/src/model.rs and refcodec.rs; exhaustive only in the thorough tier for type info.", "DESIGN.md 4/C14"),
 "C15": ("exploration", "property-based testing: computed vs serialised lengths, constructor invariants, parse-back, reference storage header",
         "Generated message configurations (every payload kind, optional fields, sizes up to the 16-bit limit, 10% non-representable) are built with Message::new; payload_length, byte_len, verbose flag and NOAR are compared with the reference encoding and the payload kind, representable ones must parse back to themselves, add_storage_header must prepend exactly the reference storage header; valid() is checked on mismatched typed kinds.",
         "Parse-back is asserted only for representable configurations; the clock value of add_storage_header(None) is not asserted.", "DESIGN.md 4/C15"),
 "C16": ("exploration", "property-based testing + libFuzzer: parse -> write -> parse fixpoint on hostile inputs",
         "Whenever the parser returns a message from a hostile input and its re-serialisation has the length its own (emitted) length field declares, re-parsing must give the identical message with nothing left and serialising again the same bytes; the evidence counts how many inputs were non-canonical (the parser normalised something).",
         "Inputs outside the statement's precondition (re-serialisation of another length) are only counted.", "DESIGN.md 4/C16"),
 "C19": ("exploration", "bounded-exhaustive enumeration over a small alphabet + property-based testing against a reference extraction function",
         "All byte strings of length 0..6 over {00,'a',C3,A9,E2,82,AC,FF} x sizes 0..7 are enumerated (2.4 M calls, exhaustive for that space), then random buffers/sizes up to 65535 and huge sizes, and messages whose four id fields are arbitrary bytes; the result must be the reference extraction (cut at first NUL inside the size, longest valid UTF-8 prefix, consume exactly the size; incomplete with hint <= shortfall otherwise). The cuts inside the id fields are also parsed under filters that would reject the message, and the complete message behind junk must yield the same ids.",
         "Trusts the reference extraction function (refcodec::text); beyond the small alphabet the space is sampled.", "DESIGN.md 4/C19"),
 "C17": ("exploration", "property-based testing (proptest) + boundary enumeration against a wide-integer reference",
         "Seeded random search (uniform, log-uniform and (seconds, remainder) inputs) plus an enumerated boundary set for both constructors, each result compared with u128 arithmetic written from the statement; overflow checks are compiled in so an overflowing multiplication is a visible panic. The domain is one u64 per constructor, so boundaries + millions of samples is the right depth; nothing is proved. Call histories (walks, interleaved unrelated clocks, message stamping and stored records parsed in between), conversions inside thread-local destructors during thread teardown and the first conversions of fresh threads are separate sections.",
         "Trusts the u128 reference formula and rustc's overflow checks; inputs outside the stated domain (seconds >= 2^32) are not judged.", "DESIGN.md 4/C17"),
 "C18": ("exploration", "property-based testing (proptest) against a wide-arithmetic reference (f64 product, i128 sum)",
         "Seeded random search over arguments of every kind, every integer variant/width, arbitrary f32 quantization bit patterns and i32/i64 offsets incl. extremes and mismatched combinations; the result is compared with a reference computed in f64/i128 exactly inside the window the statement fixes, elsewhere only 'no panic' and 'Some implies fixed-point kind with data and integer value'. Quantizations include the f32 neighbours (1..3 ulp) of round values; names and units up to 80 bytes of multi-byte text.",
         "Trusts the reference arithmetic and rustc's overflow checks; outside the stated window the numeric result is not judged.", "DESIGN.md 4/C18"),
}
NOT_YET = {}
for i in range(1, 20):
    pid = "C%02d" % i
    if pid not in CHECKS:
        NOT_YET[pid] = "check under construction in this session (see DESIGN.md section 4); not claimed until it is registered here"

manifest = {
    "version": 1,
    "setup_cmd": "cd /verif/harness && CARGO_NET_OFFLINE=true cargo build --release --offline",
    "hooks": {
        "guard": "--cfg dlt_core_verif",
        "enable": "none needed: every observation point is public API; the harness crate path-depends on /repo with features fibex,statistics,stream and builds it with overflow-checks and debug-assertions on",
        "baseline_off_cmd": "cd /repo && cargo test --workspace --no-fail-fast --offline",
        "source_commits": [],
        "add_only": True,
    },
    "engines": [
        {"name": "dltverif", "path": "harness", "serves_properties": sorted(CHECKS.keys()),
         "kind_free_text": "Rust crate: proptest strategies + seeded 16-worker driver with shrinking, bounded-exhaustive enumerators, independent reference DLT codec, evidence/replay writer; libFuzzer targets (fuzz/: bytes, fibex, args, strat) call the same oracles"},
    ],
    "checks": [],
    "notes": "Driver: ./check <Cxx> <quick|thorough>; replay: ./check <Cxx> --replay <file>. Exit 0 held / 1 VIOLATION / 2 inconclusive. VERIF_SEED selects the PRNG seed. Each check runs in a supervised child process (a case that kills the process or never returns is confirmed in a further child before it is reported; anything unconfirmed is exit 2). Findings: KNOWN_FINDINGS.txt.",
    "not_applicable": [{"property_id": k, "reason": v} for k, v in sorted(NOT_YET.items())],
}
for pid in sorted(CHECKS):
    cat, tech, text, note, ref = CHECKS[pid]
    if pid in STRAT:
        tech += STRAT_TECH
        text += STRAT_TEXT
    manifest["checks"].append({
        "property_id": pid,
        "quick_cmd": "./check %s quick" % pid,
        "thorough_cmd": "./check %s thorough" % pid,
        "evidence_file": "evidence/%s.json" % pid,
        "replay_cmd_template": "./check %s --replay {path}" % pid,
        "engine": "dltverif",
        "level_claimed": {"category": cat, "text": text, "design_ref": ref},
        "level_note": note,
        "technique": tech,
    })
json.dump(manifest, open(os.path.join(ROOT, "MANIFEST.json"), "w"), indent=1)
print("MANIFEST.json: %d checks, %d not claimed" % (len(manifest["checks"]), len(manifest["not_applicable"])))
