#!/usr/bin/env python3
"""Regenerates /verif/MANIFEST.json from the table below (kept as a script so the file stays consistent)."""
import json, os
ROOT = os.path.dirname(os.path.dirname(os.path.abspath(__file__)))

# id -> (category, technique, level text, level note, design ref)
CHECKS = {
 "C17": ("exploration", "property-based testing (proptest) + boundary enumeration against a wide-integer reference",
         "Seeded random search (uniform, log-uniform and (seconds, remainder) inputs) plus an enumerated boundary set for both constructors, each result compared with u128 arithmetic written from the statement; overflow checks are compiled in so an overflowing multiplication is a visible panic. The domain is one u64 per constructor, so boundaries + millions of samples is the right depth; nothing is proved.",
         "Trusts the u128 reference formula and rustc's overflow checks; inputs outside the stated domain (seconds >= 2^32) are not judged.", "DESIGN.md 4/C17"),
 "C18": ("exploration", "property-based testing (proptest) against a wide-arithmetic reference (f64 product, i128 sum)",
         "Seeded random search over arguments of every kind, every integer variant/width, arbitrary f32 quantization bit patterns and i32/i64 offsets incl. extremes and mismatched combinations; the result is compared with a reference computed in f64/i128 exactly inside the window the statement fixes, elsewhere only 'no panic' and 'Some implies fixed-point kind with data and integer value'.",
         "Trusts the reference arithmetic and rustc's overflow checks; outside the stated window the numeric result is not judged.", "DESIGN.md 4/C18"),
}
NOT_YET = {}
for i in range(1, 20):
    pid = "C%02d" % i
    if pid not in CHECKS:
        NOT_YET[pid] = "check under construction in this session (see DESIGN.md section 4); not claimed until it is registered here"

manifest = {
    "version": 1,
    "setup_cmd": "cd /verif/harness && CARGO_NET_OFFLINE=true cargo build --release --offline",
    "hooks": {
        "guard": "--cfg dlt_core_verif",
        "enable": "none needed: every observation point is public API; the harness crate path-depends on /repo with features fibex,statistics,stream and builds it with overflow-checks and debug-assertions on",
        "baseline_off_cmd": "cd /repo && cargo test --workspace --no-fail-fast --offline",
        "source_commits": [],
        "add_only": True,
    },
    "engines": [
        {"name": "dltverif", "path": "harness", "serves_properties": sorted(CHECKS.keys()),
         "kind_free_text": "Rust crate: proptest strategies + seeded 16-worker driver with shrinking, bounded-exhaustive enumerators, independent reference DLT codec, evidence/replay writer"},
    ],
    "checks": [],
    "notes": "Driver: ./check <Cxx> <quick|thorough>; replay: ./check <Cxx> --replay <file>. Exit 0 held / 1 VIOLATION / 2 inconclusive. VERIF_SEED selects the PRNG seed. Findings: KNOWN_FINDINGS.txt.",
    "not_applicable": [{"property_id": k, "reason": v} for k, v in sorted(NOT_YET.items())],
}
for pid in sorted(CHECKS):
    cat, tech, text, note, ref = CHECKS[pid]
    manifest["checks"].append({
        "property_id": pid,
        "quick_cmd": "./check %s quick" % pid,
        "thorough_cmd": "./check %s thorough" % pid,
        "evidence_file": "evidence/%s.json" % pid,
        "replay_cmd_template": "./check %s --replay {path}" % pid,
        "engine": "dltverif",
        "level_claimed": {"category": cat, "text": text, "design_ref": ref},
        "level_note": note,
        "technique": tech,
    })
json.dump(manifest, open(os.path.join(ROOT, "MANIFEST.json"), "w"), indent=1)
print("MANIFEST.json: %d checks, %d not claimed" % (len(manifest["checks"]), len(manifest["not_applicable"])))
