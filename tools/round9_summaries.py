import json
S = {
"C01-q": ("name of a bool/string/raw argument taken from the predecessor when the wire field starts with it", "a named argument whose predecessor's name is a proper prefix of its own"),
"C01-r": ("one-entry cache of decoded string values whose wire bytes are never refreshed", "string values A, B, A in one message"),
"C02-q": ("name and unit taken as one block and split at its first NUL", "a name field that is not exactly text + one NUL"),
"C02-r": ("32-bit floats written through f64 and back", "signalling NaN bit patterns"),
"C03-q": ("Message::as_bytes writes a header whose payload length is recomputed from the emitted payload", "parsed message of 65535 bytes with an unterminated text (total passes 65535 on re-serialisation)"),
"C03-r": ("up-front length check over the fixed parts; the bool arm loses its own guard", "string/raw content in front of a bool, data ending right in front of the bool byte"),
"C04-q": ("skipper treats a marker right behind the storage header as an orphaned header", "standard header bytes that spell the marker (HTYP 0x44, MCNT 'L', LEN 0x5401)"),
"C04-r": ("leading serial marker 'DLS\\x01' stripped in the mode without storage header", "standard header bytes that spell the serial marker"),
"C05-q": ("ECU id that decodes to \"\" is built as None, the skipper frames by the re-derived length", "WEID with an empty ECU id, cut in the last four bytes"),
"C05-r": ("storage ECU id copied into a header without one when an ECU filter is given", "storage mode, ECU filter, no WEID: every hint is 4 too large"),
"C06-q": ("search passes over 'unwritten records' (filled storage header, zero standard header)", "marker + filled storage header + zero header, then a later record"),
"C06-r": ("after a resync, under an ECU filter, a record of a foreign storage ECU is passed over", "junk, ECU filter, no WEID, foreign storage id, a later record of a wanted ECU"),
"C07-q": ("reader drops an 'orphaned' storage header when the standard header position holds the marker", "storage mode, header bytes that spell the marker"),
"C07-r": ("after a too-short length the buffered bytes are searched for the next marker", "storage mode, declared length below 4, a marker further on already buffered (whole reads differ from one-byte reads)"),
"C08-q": ("async reader keeps the bytes behind a marker found inside a discarded header", "storage mode, 1..12 foreign bytes in front of a record whose misaligned length field reads below 4"),
"C08-r": ("read_message stores the slice length of a rejected record, next_message_slice hands it out again", "a rejected record fetched with read_message, then next_message_slice on the same reader"),
"C09-q": ("fast path for three singleton sets compares the ECU id as Option", "three singleton sets, message without header ECU id whose ids are the allowed ones"),
"C09-r": ("storage ECU id passed to the filter when the set contains it", "stored message, header ECU id not allowed, storage ECU id allowed"),
"C10-q": ("blocking reader latches end of stream", "a source that grows after it reported end of input (outside the read contract, see C08-g)"),
"C10-r": ("tables extended instead of merged when the operands share no ECU id", "two parts of different ECUs that share an application or context id"),
"C11-q": ("custom signals whose id begins with S_ are dropped as unsupported predefined ones", "a custom signal called S_SPEED"),
"C11-r": ("resolved signal lists memoised under the joined ids", "one PDU listing SIG_0, SIG_1 and another listing SIG_0-SIG_1"),
"C12-q": ("element depth counter with an uncounted start inside DESC", "a DESC that begins with a child element"),
"C12-r": ("unquote strips one surrounding pair of quotes", "a PDU description that is exactly one double quote"),
"C13-q": ("empty strings return before the offset is advanced", "an empty string that is not the last signal"),
"C13-r": ("string values lose a final NUL", "string content ending in U+0000 (left open by the statement for the terminator; detected through the value in front of it)"),
"C14-q": ("time stamp dropped when it equals the storage seconds (microseconds 0)", "WTMS, storage time = time stamp, no microseconds"),
"C14-r": ("extended header of ten zero bytes treated as absent", "UEH with MSIN 0, NOAR 0 and blank ids"),
"C15-q": ("payload length of 'uniform' argument arrays computed as n x len(first)", "equally shaped numeric arguments whose units differ in length"),
"C15-r": ("add_storage_header returns the message unchanged when the time equals the existing header's", "a message built with a recorder's storage header, stamped again with that header's time"),
"C16-q": ("reserved string coding keeps bits 15..22", "reserved coding together with reserved bits 18..22"),
"C16-r": ("byte order taken from the header only when an extended header is present", "MSBF without extended header"),
"C17-q": ("from_us counts on within a 2^20 us block with a single carry", "two calls 1.0 .. 1.05 s apart inside one block with two second boundaries"),
"C17-r": ("from_ms anchors on the first call of the process and adds in 32 bits", "first call with a millisecond part, later call just short of 2^32 ms later"),
"C18-q": ("u64 above i64::MAX converted as (v >> 1) * 2", "bit 63 set and low bits one above a rounding midpoint"),
"C18-r": ("label formatted into a thread-local buffer that stays borrowed while trace! runs", "a logger that itself converts a fixed-point argument"),
"C19-q": ("after a resync a marker is accepted only if the record is followed by a marker or the end", "junk + record + stray bytes + a later record"),
"C19-r": ("early 'whole message here' check adds the extended-header length unconditionally", "message without extended header with fewer than 10 bytes behind it"),
}
for k,(s,n) in S.items():
    p='/verif/seeded/%s/meta.json'%k
    m=json.load(open(p)); m['summary']=s; m['needs_to_manifest']=n
    m['origin']="independent sub-agent (round 9) given only the property text, the notes of earlier rounds for that property and a scratch worktree"
    json.dump(m,open(p,'w'),indent=1)
print(len(S))
