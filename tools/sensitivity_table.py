#!/usr/bin/env python3
"""Prints the markdown table of seeded changes (from /verif/seeded/*/meta.json) for DESIGN.md section 7."""
import json, glob, os, re
rows = []
for d in sorted(glob.glob(os.path.join(os.path.dirname(os.path.dirname(os.path.abspath(__file__))), "seeded", "*"))):
    if not os.path.exists(d + "/meta.json"): continue
    m = json.load(open(d + "/meta.json"))
    name = os.path.basename(d)
    needs = m.get("needs_to_manifest", "")
    if needs == "see notes.md" and os.path.exists(d + "/notes.md"):
        needs = ""
    checks = {k: v for k, v in m["checks"].items() if "(scratch)" not in k}
    det = sorted(k for k, v in checks.items() if v["detected"])
    miss = sorted(k for k, v in checks.items() if not v["detected"])
    summary = m.get("summary", "")
    rows.append((name, m["breaks_property"], summary, ", ".join(det) or "-", ", ".join(miss) or "-"))
print("| seeded change | property | what it does / what it needs | detected by | also run, silent (other property) |")
print("|---|---|---|---|---|")
for r in rows:
    print("| %s | %s | %s | %s | %s |" % r)
