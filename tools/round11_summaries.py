import json
S = {
"C01-u": ("per-message memo of decoded texts keyed by a 32-bit FNV-1a hash and the length, bytes not compared", "two different texts of one message that collide under FNV-1a 32"),
"C02-u": ("resync candidates whose LEN is below their header size are skipped", "junk in front of a marker that is followed by an inconsistent standard header"),
"C03-u": ("debug_assert that the arguments grow by at most one byte each when written back", "an argument whose name and unit both lack the terminating NUL"),
"C04-u": ("skipper swallows a NUL-only tail", "a record followed only by NUL bytes up to the end of the buffer"),
"C05-u": ("text cut inside a multi-byte character at the end of the input reports Incomplete(char width - present)", "wire-level context id ending in a truncated UTF-8 sequence, control message, cut behind the extended header (outside C05's well-formed messages; detected by C19)"),
"C06-u": ("after a resync a stored ECU id that is a proper prefix of the header ECU id is replaced by it", "junk in front, WEID, storage id a prefix of the header id"),
"C07-u": ("blocking read_message caches 'filter has a criterion' by the address of the configuration", "one configuration object edited in place from criterion-free to rejecting between calls"),
"C08-u": ("async read_message caches 'filter has a criterion' by the address of the configuration", "one configuration object edited in place from criterion-free to rejecting between calls"),
"C09-u": ("criteria evaluated in one loop over ids zipped with sets after flattening the absent ECU id", "message with extended header and without header ECU id"),
"C10-u": ("messages without extended header counted as runs that overwrite an ECU row holding only log messages", "one ECU with messages with and without extended header in one part"),
"C11-u": ("lookup fast path checks the frame's ids with application and context exchanged", "lookup whose header carries the frame's ids in exchanged roles"),
"C12-u": ("'did you mean' hint for a dangling PDU-REF computes the first differing byte with expect", "a reference that equals a defined id up to a trailing blank"),
"C13-u": ("a string that is a prefix of the last validated string is built unchecked", "later string = prefix of an earlier one, cut inside a character"),
"C14-u": ("as_bytes rebuilds the header with session id and time stamp exchanged when the payload grew", "verbose message with an unterminated text and exactly one of WSID / WTMS"),
"C15-u": ("unnamed strings lose one trailing line break in len and as_bytes", "string argument without variable info ending in a line break"),
"C16-u": ("bool arguments with an empty name are written without variable info", "bool with VARI and empty name in a message whose other arguments grow by three bytes"),
"C17-u": ("from_ms resolves inputs near the previous one in 32-bit arithmetic; ceil division overflows", "second call 2^32-999 .. 2^32-1 ms before the predecessor's second"),
"C18-u": ("16-bit values times whole quantizations up to 65535 multiplied in i32", "U16 value x whole quantization reaching 2^31"),
"C19-u": ("standard-header ECU id answered from the storage id when the raw fields agree, storage field read at buffer offset 12", "junk whose bytes 12..16 repeat the record's header ECU id"),
}
for k,(s,n) in S.items():
    p='/verif/seeded/%s/meta.json'%k
    m=json.load(open(p)); m['summary']=s; m['needs_to_manifest']=n
    m['origin']="independent sub-agent (round 11) given only the property text, the notes of earlier rounds for that property and a scratch worktree"
    json.dump(m,open(p,'w'),indent=1)
print(len(S))
