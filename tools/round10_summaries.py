import json
S = {
"C01-s": ("control payload reuses the header's ControlType when its MSIN encoding equals the service id byte", "service id byte equal to the header's control type nibble shifted by four (0x10 in a request)"),
"C02-s": ("verbose branch skips the argument parser when the payload slice is empty", "VERB set, NOAR >= 1 and LEN leaving no payload bytes (accepted instead of rejected)"),
"C03-s": ("incomplete arm recomputes 'needed' from the whole input length although junk was skipped", "storage mode, k junk bytes in front, record cut by fewer than k bytes"),
"C04-s": ("standard header no longer rejects a length below its own headers; payload length saturates to 0", "length field smaller than the announced header length"),
"C05-s": ("cut extended header reports a hint that adds a minimum payload of 4 for non-verbose messages", "control message with a 1..3 byte payload, cut inside the extended header"),
"C06-s": ("marker search stops 24 bytes before the end of the input", "junk in front of a 24..27 byte record that ends the buffer"),
"C07-s": ("reader trims its buffer after 1024 small messages and re-allocates it (losing the header) for a large one", "at least 1024 small messages followed by a message above 4 KiB"),
"C08-s": ("async with_capacity allocates message_max_len - 16 without storage header", "with_capacity, no storage header, record longer than message_max_len - 16"),
"C09-s": ("small id sets compared in zero-filled 4-byte wire form", "a set that holds 'AP\\0\\0' but not 'AP'"),
"C10-s": ("statistics scan reuses the extended header decoded last when type and ids agree", "two messages with equal MSIN and ids but different argument counts"),
"C11-s": ("PDU instances de-duplicated by instance id after the sort", "non-unique instance ids, the same PDU twice with neighbouring sequence numbers"),
"C11-t": ("a signal reference that names no signal is tried as a coding id", "SIGNAL-REF equal to the id of a coding"),
"C12-s": ("warning helper slices MESSAGE_INFO behind the kind named by MESSAGE_TYPE", "MESSAGE_TYPE DLT_TYPE_LOG with MESSAGE_INFO exactly DLT_LOG"),
"C13-s": ("guard against verbose payloads: refuse a payload that begins with the first signal's type-info word", "first value equal to its own type-info word"),
"C14-s": ("Message::new fills a blank storage ECU id with conf.ecu_id.take()", "message parsed behind a blank storage ECU id with WEID, rebuilt with that storage header"),
"C15-s": ("non-verbose writer omits the message id when the payload already starts with it", "payload beginning with the message id in the message's byte order"),
"C16-s": ("stored messages are padded with NULs up to the declared length", "verbose network-trace message with a non-raw argument behind a storage header"),
"C17-s": ("from_ms answers stragglers up to one second before the memoised second with saturating_sub", "a call in second 2^32 (out of domain) followed by one in the last legal second"),
"C18-s": ("trace label drops a unit the name ends in (case-insensitive test, byte-length cut)", "Trace logger, name ending in the unit through a letter whose lower case has another length (OHM SIGN, KELVIN SIGN)"),
"C19-s": ("search for 'DLT' + version byte resumes 4 bytes behind a failed candidate", "junk ending in 'DLT' directly in front of a real marker"),
}
for k,(s,n) in S.items():
    p='/verif/seeded/%s/meta.json'%k
    m=json.load(open(p)); m['summary']=s; m['needs_to_manifest']=n
    m['origin']="independent sub-agent (round 10) given only the property text, the notes of earlier rounds for that property and a scratch worktree"
    json.dump(m,open(p,'w'),indent=1)
print(len(S))
