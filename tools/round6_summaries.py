import json
S = {
"C01-k": ("verbose payload writer repeats the previous argument's bytes when the next argument compares equal (0.0 == -0.0)", "two neighbouring arguments equal in everything but the sign of a floating-point zero"),
"C01-l": ("thread-local cache of the encoded type-info/name/unit block shared by the big- and little-endian writers", "the same named numeric argument serialised in both byte orders on one thread"),
"C02-k": ("verbose payload writer reuses the previous argument's bytes for an equal neighbour (0.0 == -0.0)", "adjacent float arguments (or fixed-point quantizations) +0.0 / -0.0"),
"C02-l": ("storage header read with complete instead of streaming parsers behind skipped bytes", "storage mode, junk in front of the marker, buffer ending 4..15 bytes behind the marker"),
"C03-k": ("storage-header search skips implausible markers by non-tail recursion: stack overflow", "thousands of consecutive false markers (marker + blank bytes repeated over ~80 KB)"),
"C03-l": ("Message::as_bytes serialises into a thread-local RefCell buffer that stays borrowed while the crate logs", "a logger that itself serialises a DLT message on the same thread (DLT sink)"),
"C04-k": ("4-byte id parser leaves the field early when a NUL is followed by non-NUL bytes", "an ECU/application/context id field such as 'EC\\0\\xCC'"),
"C04-l": ("skip_storage_header returns Ok when there is no marker, so dlt_consume_msg reports messages where none starts", "a slice handed to the skipper that does not begin with the marker"),
"C05-k": ("plausibility exit for one-argument string/raw payloads that forgets the variable-info name", "verbose, exactly one named string/raw argument, cut with >= 6 payload bytes present"),
"C05-l": ("incomplete-length arm moved under 'has extended header': header-only messages fall into the catch-all", "message without extended header, cut behind the standard header"),
"C06-k": ("per-thread 'expected ECU' continuity check moves a resync on to a later marker", "two messages of ECU X parsed on the thread, then junk + a message of ECU Y with a later marker of X behind it"),
"C06-l": ("after a resync a message inside the consumed bytes that is followed by a marker is preferred", "junk in front, a non-marker byte behind, payload holding two or more complete stored records"),
"C07-k": ("read_message caches the FilteredOut verdict keyed on header type + extended header only", "ecu_ids filter, two adjacent messages with identical extended header, first from a rejected ECU"),
"C07-l": ("read_message parses a fully buffered message in place, so the marker search runs into following records", "storage mode, a record with damaged marker and intact length, later records already buffered"),
"C08-k": ("async reader arms an 'out of sync' flag after a too-short length and then insists on a marker", "storage mode, a length 0..3 record directly followed by a record with damaged marker, caller continues"),
"C08-l": ("async reader latches the body read error and returns it for ever", "stream cut inside a body, caller asks again after the error"),
"C09-k": ("read_message remembers the last dropped extended header and drops equal ones without asking the filter", "ecu_ids filter, rejected-ECU message followed by an allowed one with identical extended header, one reader"),
"C09-l": ("conversions zero the totals of absent lists and filtered_out counts an absent set as 0 selected ids", "hand-built (struct literal / edited) processed configuration with absent set and positive total, no extended header"),
"C10-k": ("merge shares one position index across the application, context and ECU passes", "an id string used as two kinds of id across a merge step"),
"C10-l": ("collector keeps (level, count) lists and assigns instead of adding per bucket", "two log messages with different undefined levels under one id in one part"),
"C11-k": ("resets of short name / byte length / description at <PDU> dropped as 'dead stores'", "a DESC on a non-PDU element in front of a PDU that has none"),
"C11-l": ("elements are dispatched by prefix, known prefixes collected from the root element only", "namespace prefixes declared on an inner element"),
"C12-k": ("index loop over the files skips a path seen before without advancing", "the same path listed twice"),
"C12-l": ("frame stage moves PDUs out of the map after a use count that ignores later definitions of a frame id", "a frame id defined twice, the later one with new app/context ids and a shared PDU"),
"C13-k": ("cursor refactoring that the Bool arm does not advance", "an integer signal behind a bool signal"),
"C13-l": ("'wrong MSBF' heuristic re-reads the closing string/raw length byte-swapped when that reaches the end", "closing string/raw field and exactly 255*(lo-hi) trailing bytes"),
"C14-k": ("verbose payload is retried in the other byte order and the header's byte-order flag is flipped", "arguments written in the order the header does not announce"),
"C14-l": ("serde(untagged) on MessageType: JSON round trip maps ApplicationTrace(Invalid(n)) to Log(Invalid(n))", "feature serialization and a serde round trip between decoding and re-encoding (outside the statement, see section 9)"),
"C15-k": ("debug trace preview of string arguments cut at byte 32", "feature debug, Trace logger, string argument with a multi-byte character across byte 32"),
"C15-l": ("add_storage_header re-syncs the length field through a helper that forgets network-trace type infos", "stamping a network-trace message"),
"C16-k": ("network-trace fast path keyed on the raw type-info word", "network-trace message whose raw arguments carry type-info bits the model drops"),
"C16-l": ("numeric VARI arguments announce UTF-8 when name or unit is not ASCII", "numeric argument, VARI, ASCII coding, multi-byte name or unit"),
"C17-k": ("from_ms answers from a heap-backed thread-local that has a destructor", "a conversion made from another thread-local's destructor while the thread winds down"),
"C17-l": ("from_us keeps three recent clock entries; move-to-front and tick handling are alternatives", "a sub-second walk across a second boundary interleaved with an unrelated instant"),
"C18-k": ("'unscaled' fast path when |q - 1| < f32::EPSILON", "quantization = the f32 just below 1.0"),
"C18-l": ("trace line shortens name and unit at byte 24", "Trace logger, fixed-point argument, name or unit >= 25 bytes with a multi-byte character across byte 24"),
"C19-k": ("incomplete extended header reports 'missing of the whole message' counting the storage header twice", "storage mode, buffer ending inside the extended header"),
"C19-l": ("early exit for messages of a rejected ECU turns an incomplete length into a hickup", "ecu_ids filter rejecting the message, buffer ending inside application/context id"),
}
for k,(s,n) in S.items():
    p='/verif/seeded/%s/meta.json'%k
    m=json.load(open(p)); m['summary']=s; m['needs_to_manifest']=n
    m['origin']="independent sub-agent (round 6) given only the property text, the notes of earlier rounds for that property and a scratch worktree"
    json.dump(m,open(p,'w'),indent=1)
print(len(S))
