import json
S = {
"C01-m": ("verbose message with empty payload returns Verbose([]) without asking dlt_payload", "network-trace message with zero segments"),
"C01-n": ("length fields of empty name/unit written as 0 while the NUL is still emitted", "numeric argument with variable info and an empty name or unit"),
"C02-m": ("text fields validated once and trimmed of trailing NULs only", "a non-NUL byte behind an embedded NUL in an id / name / string"),
"C02-n": ("payload branch order control / verbose / non-verbose", "control message type with the verbose bit set"),
"C03-m": ("tolerance for an unterminated unit looks at rest[0] unchecked", "numeric VARI argument whose unit fills its size, payload ending right behind it"),
"C03-n": ("tolerance for an unterminated name looks at i2[0] unchecked", "string/raw VARI argument of size 0 with an unterminated name, last in the payload"),
"C04-m": ("remainder of a rejected record is moved on to the next marker", "storage mode, rejecting filter, non-marker bytes behind the record, a later marker"),
"C04-n": ("junk in front of an incomplete record is released as Ok(Invalid)", "storage mode, junk in front, record cut inside its payload"),
"C05-m": ("skip_storage_header via strip_prefix cannot say 'partial pattern'", "the skipper fed 1..3 bytes of a stored message"),
"C05-n": ("incomplete arm first hands the arrived payload to dlt_payload; control branch uses a complete-mode parser", "control message cut exactly behind the extended header"),
"C06-m": ("after a resync a storage/standard ECU mismatch restarts at a later 'consistent' header", "junk in front, message stored by another ECU than it names, a later consistent record"),
"C06-n": ("search steps over leading zero padding but counts from the shortened slice", "skipped bytes that begin with 0x00"),
"C07-m": ("probe with fill_buf in front of the header read treats Interrupted as end of stream", "one Interrupted on the read issued at a message boundary with an empty buffer"),
"C07-n": ("fast path for a buffered message tests the length without the storage header", "storage mode, buffered bytes ending inside the last 16 bytes of the next message"),
"C08-m": ("async read_message remembers the rejected sender fields and answers FilteredOut without the filter", "a different filter passed at the next call, same sender fields"),
"C08-n": ("hand-written poll_fill returns Pending after a short read without arranging a wake-up", "a fragment boundary inside a header or body under a waking executor"),
"C09-m": ("ECU fast path ahead of the extended header also drops messages without extended header", "no extended header, ECU id not in the set"),
"C09-n": ("app/context checks flattened into one match whose first arm shadows the second", "both id sets given, application allowed, context not"),
"C10-m": ("empty header ECU id is booked under the storage header's ECU id", "storage mode, WEID with an empty id"),
"C10-n": ("merge by sort (lower-cased key) + dedup (exact id)", "two ids that differ only in case in one table"),
"C11-m": ("a frame resolves PDU references in its own file first", "a PDU id defined differently in two files, referenced from the later file"),
"C11-n": ("sort skipped when the last two instances pushed were ascending", "three or more instances out of order with an ascending last pair"),
"C12-m": ("debug line computes now - modified", "a file whose modification time lies ahead of the clock"),
"C12-n": ("Vec presized with frame_map.len() - frame_map_with_key.len()", "one frame id under two complete (application, context) pairs"),
"C13-m": ("a run of same-kind integers all get the first signal's TypeInfo", "adjacent signals of one integer kind with different coding / flags"),
"C13-n": ("invalid UTF-8 string retried with the part before its first NUL", "invalid string whose first NUL precedes the first bad byte"),
"C14-m": ("Message::new takes the message type from a ControlMsg payload's control type", "control message whose service id nibble differs from MTIN, rebuilt from its parts"),
"C14-n": ("fixed-point TYLE 1..3 all mapped to 32 bit", "FIXP with TYLE 1 or 2"),
"C15-m": ("control id written as u8::from(ctrl) >> 4", "ControlMsg with Unknown(n), n >= 16"),
"C15-n": ("Message::new invents an extended header for control requests but leaves the UEH flag off", "ControlMsg request payload without extended-header configuration"),
"C16-m": ("parser reads quantization/offset for FLOA arguments with FIXP", "float argument with FIXP set and the fixed-point layout on the wire"),
"C16-n": ("ids stripped of trailing NUL/blank padding before the NUL cut", "an id with a blank directly in front of a NUL or of a cut character"),
"C17-m": ("from_ms publishes its per-thread memo to process-wide atomics (stale second with new start on a tick)", "a fresh thread's first call after another thread ticked into that second"),
"C17-n": ("from_us counts on from the storage time of the record parsed last, bound <= instead of <", "a stored record parsed on the thread, then the first microsecond of the next second"),
"C18-m": ("negative offsets subtracted with a strict guard: zero becomes None", "value x quantization == -offset"),
"C18-n": ("signed fixed point floors instead of truncating", "signed kind, product in (-1, 0)"),
"C19-m": ("'headers longer than the declared length' check moved in front of the optional fields", "buffer ending inside the ECU id AND a length field smaller than the header (both verdicts admissible, see section 9)"),
"C19-n": ("resync guard rejects markers followed by a non-printable storage ECU id", "junk in front of a record whose storage ECU id holds a non-ASCII byte"),
}
for k,(s,n) in S.items():
    p='/verif/seeded/%s/meta.json'%k
    m=json.load(open(p)); m['summary']=s; m['needs_to_manifest']=n
    m['origin']="independent sub-agent (round 7) given only the property text, the notes of earlier rounds for that property and a scratch worktree"
    json.dump(m,open(p,'w'),indent=1)
print(len(S))
