import json
S = {
"C04-w": ("early ECU-filter exit on the storage ECU id skips the payload from the end of the standard header", "storage mode, ECU filter, no header ECU id, rejected storage id, extended header present"),
"C10-w": ("an ECU id with trailing blanks is booked on the row of its blank-stripped spelling when that row exists", "ECU ids 'ECU' and 'ECU ' in one part, the plain one first"),
"C11-w": ("signal instances sorted with an unstable sort", "more than 20 instances with equal sequence numbers (ties: the statement speaks of sequence-number permutations; not generated, see section 9)"),
"C12-w": ("XML declaration checked with &minor[1..] after splitting the version at the dot", "declaration whose version is exactly \"1\""),
"C13-w": ("a string/raw field whose first two bytes spell the length of the rest loses them", "content beginning with its own remaining length"),
"C14-w": ("time stamp dropped when it equals the session id (above 65535)", "WSID and WTMS with equal words"),
"C18-w": ("quantizations that are exact negative powers of two are applied by shifting", "64-bit value with more than 53 significant bits and quantization 0.5 / 0.25 ..."),
}
for k,(s,n) in S.items():
    p='/verif/seeded/%s/meta.json'%k
    m=json.load(open(p)); m['summary']=s; m['needs_to_manifest']=n
    m['origin']="independent sub-agent (round 13) given only the property text, the notes of earlier rounds for that property and a scratch worktree"
    json.dump(m,open(p,'w'),indent=1)
print(len(S))
