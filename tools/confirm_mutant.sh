#!/bin/bash
# tools/confirm_mutant.sh <Cxx> <letter>
# Confirms a candidate change produced in the scratch worktree /tmp/wt/<Cxx> (patch _out/<letter>.diff, demo
# _out/demo_<Cxx>_<letter>.rs): it must apply, build, pass the unedited suites (54 default / 63 all features),
# and its demonstration must fail with the change and pass without.  On success the change is stored as
# /verif/seeded/<Cxx>-<letter>/ {patch.diff, demo.rs, notes.md, meta.json (partly filled)}.
set -u
ID="$1"; L="$2"
WT="${3:-/tmp/wt/$ID}"; OUT="$WT/_out"; [ -d "$WT/_out/$ID" ] && OUT="$WT/_out/$ID"
export CARGO_NET_OFFLINE=true CARGO_TARGET_DIR=/tmp/wt/target-confirm CARGO_BUILD_JOBS=8
cd "$WT" || exit 2
git checkout -q -- . ; mkdir -p /tmp/wt/aside-$ID; mv tests/demo_* /tmp/wt/aside-$ID/ 2>/dev/null; rm -f tests/demo_confirm.rs
fail() { echo "REJECTED $ID-$L: $1"; git checkout -q -- .; rm -f tests/demo_confirm.rs; exit 1; }
git apply --check "$OUT/$L.diff" 2>/dev/null || fail "patch does not apply"
git apply "$OUT/$L.diff"
cargo build --offline --all-features >/tmp/wt/confirm.log 2>&1 || fail "does not build"
T1=$(cargo test --workspace --no-fail-fast --offline 2>&1 | grep -E "^test result" | head -1)
echo "$T1" | grep -q "54 passed; 0 failed" || fail "default suite: $T1"
T2=$(cargo test --all-features --offline 2>&1 | grep -E "^test result" | head -1)
echo "$T2" | grep -q "63 passed; 0 failed" || fail "all-features suite: $T2"
cp "$OUT/demo_${ID}_$L.rs" tests/demo_confirm.rs
D1=$(timeout 600 cargo test --offline --all-features --test demo_confirm 2>&1 | grep -E "^test result|error\[" | head -2 | tr '\n' ' ')
echo "$D1" | grep -qE "[1-9][0-9]* failed" || { echo "$D1" | grep -q "test result" || D1="$D1 (no result: timeout/abort)"; echo "$D1" | grep -qE "0 failed" && fail "demo does not fail with the change: $D1"; }
git checkout -q -- src
D2=$(timeout 600 cargo test --offline --all-features --test demo_confirm 2>&1 | grep -E "^test result|error\[" | head -2 | tr '\n' ' ')
echo "$D2" | grep -qE "passed; 0 failed" || fail "demo does not pass without the change: $D2"
rm -f tests/demo_confirm.rs; git checkout -q -- .
DEST="/verif/seeded/$ID-$L"; mkdir -p "$DEST"
cp "$OUT/$L.diff" "$DEST/patch.diff"; cp "$OUT/demo_${ID}_$L.rs" "$DEST/demo.rs"; cp "$OUT/$L.md" "$DEST/notes.md" 2>/dev/null
python3 - "$DEST" "$ID" "$L" "$T1" "$T2" "$D1" "$D2" <<'PY'
import json, sys, os
dest, pid, l, t1, t2, d1, d2 = sys.argv[1:8]
meta = {"breaks_property": pid, "origin": "independent sub-agent given only the property text and a scratch worktree",
        "needs_to_manifest": "see notes.md",
        "confirmed": {"applies_and_builds": True, "default_suite": t1.strip(), "all_features_suite": t2.strip(),
                      "demo_with_change": d1.strip(), "demo_without_change": d2.strip(),
                      "how": "tools/confirm_mutant.sh in a scratch worktree under /tmp (removed afterwards)"},
        "checks": {}}
p = os.path.join(dest, "meta.json")
if os.path.exists(p):
    old = json.load(open(p)); meta["checks"] = old.get("checks", {}); meta["needs_to_manifest"] = old.get("needs_to_manifest", meta["needs_to_manifest"])
json.dump(meta, open(p, "w"), indent=1)
PY
echo "CONFIRMED $ID-$L: suites '$T1' / '$T2'; demo with change: $D1; without: $D2"
