#!/usr/bin/env python3
"""Regenerates the sensitivity table of DESIGN.md (between the sensitivity-table markers) from seeded/*/meta.json."""
import os, subprocess, sys
root = os.path.dirname(os.path.dirname(os.path.abspath(__file__)))
table = subprocess.run([sys.executable, os.path.join(root, "tools", "sensitivity_table.py")], capture_output=True, text=True).stdout
p = os.path.join(root, "DESIGN.md")
d = open(p).read()
a = d.index("<!-- sensitivity-table:begin -->") + len("<!-- sensitivity-table:begin -->\n")
b = d.index("<!-- sensitivity-table:end -->")
open(p, "w").write(d[:a] + table + d[b:])
print("table rows:", table.count("\n") - 2)
