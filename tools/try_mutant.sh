#!/bin/bash
# tools/try_mutant.sh <seeded-dir-name> <tier> <Cxx> [<Cxx> ...]
#
# Official mode (default): applies /verif/seeded/<name>/patch.diff to /repo's working tree, runs the given
# checks, records the outcome in the seeded meta.json, and undoes the change straight afterwards.
#
# Scratch mode (SLOT=<k> in the environment): the patch is applied to a scratch worktree /tmp/mt/slot<k> of
# /repo's HEAD instead and the checks judge that worktree (DLTVERIF_REPO), writing evidence/replays below
# /tmp/mt/out<k>; /repo is not touched, several slots can run in parallel.  Results are recorded under the key
# "<Cxx> <tier> (scratch)"; the table in DESIGN.md uses official results only.
set -u
NAME="$1"; TIER="$2"; shift 2
ROOT="$(cd "$(dirname "$0")/.." && pwd)"
DIR="$ROOT/seeded/$NAME"
cd "$ROOT" || exit 2
SUFFIX=""
if [ -n "${SLOT:-}" ]; then
  WT="/tmp/mt/slot$SLOT"; mkdir -p /tmp/mt
  [ -d "$WT" ] || git -C /repo worktree add -q --detach "$WT" HEAD || exit 2
  git -C "$WT" checkout -q --detach "$(git -C /repo rev-parse HEAD)" 2>/dev/null
  git -C "$WT" checkout -q -- . ; git -C "$WT" clean -qfd -e target
  git -C "$WT" apply "$DIR/patch.diff" || { echo "patch does not apply"; exit 2; }
  export DLTVERIF_REPO="$WT" DLTVERIF_OUT="/tmp/mt/out$SLOT"; mkdir -p "$DLTVERIF_OUT"
  trap 'git -C "$WT" checkout -q -- .' EXIT
  SUFFIX=" (scratch)"
else
  [ -z "$(git -C /repo status --porcelain -- src)" ] || { echo "/repo is not clean"; exit 2; }
  git -C /repo apply "$DIR/patch.diff" || { echo "patch does not apply"; exit 2; }
  trap 'git -C /repo checkout -- . ' EXIT
  # evidence of a run against a changed tree is not evidence about /repo: keep it out of /verif/evidence
  export DLTVERIF_OUT="$ROOT/work/mutant-out"; mkdir -p "$DLTVERIF_OUT"
fi
for P in "$@"; do
  START=$(date +%s)
  OUT=$(./check "$P" "$TIER" 2>/dev/null); RC=$?
  SECS=$(( $(date +%s) - START ))
  LINE=$(echo "$OUT" | grep -a -E "^(VIOLATION|OK|INCONCLUSIVE)" | head -1)
  MSG=$(echo "$OUT" | grep -a -A1 "^VIOLATION" | tail -1 | cut -c1-300)
  echo "$NAME $P $TIER$SUFFIX rc=$RC ${SECS}s :: $LINE :: $MSG"
  python3 - "$DIR/meta.json" "$P" "$TIER$SUFFIX" "$RC" "$SECS" "$MSG" <<'PY'
import json, sys
p, prop, tier, rc, secs, msg = sys.argv[1:7]
m = json.load(open(p))
m.setdefault("checks", {})["%s %s" % (prop, tier)] = {"exit": int(rc), "seconds": int(secs), "detected": rc == "1", "first_line": msg.strip()}
json.dump(m, open(p, "w"), indent=1)
PY
done
