#!/bin/bash
# tools/try_mutant.sh <seeded-dir-name> <tier> <Cxx> [<Cxx> ...]
# Applies /verif/seeded/<name>/patch.diff to /repo's working tree, runs the given checks, records the
# outcome in the seeded meta.json, and undoes the change straight afterwards.
set -u
NAME="$1"; TIER="$2"; shift 2
DIR="/verif/seeded/$NAME"
cd /verif || exit 2
[ -z "$(git -C /repo status --porcelain -- src)" ] || { echo "/repo is not clean"; exit 2; }
git -C /repo apply "$DIR/patch.diff" || { echo "patch does not apply"; exit 2; }
trap 'git -C /repo checkout -- . ' EXIT
for P in "$@"; do
  START=$(date +%s)
  OUT=$(./check "$P" "$TIER" 2>/dev/null); RC=$?
  SECS=$(( $(date +%s) - START ))
  LINE=$(echo "$OUT" | grep -a -E "^(VIOLATION|OK|INCONCLUSIVE)" | head -1)
  MSG=$(echo "$OUT" | grep -a -A1 "^VIOLATION" | tail -1 | cut -c1-300)
  echo "$NAME $P $TIER rc=$RC ${SECS}s :: $LINE :: $MSG"
  python3 - "$DIR/meta.json" "$P" "$TIER" "$RC" "$SECS" "$MSG" <<'PY'
import json, sys
p, prop, tier, rc, secs, msg = sys.argv[1:7]
m = json.load(open(p))
m.setdefault("checks", {})["%s %s" % (prop, tier)] = {"exit": int(rc), "seconds": int(secs), "detected": rc == "1", "first_line": msg.strip()}
json.dump(m, open(p, "w"), indent=1)
PY
done
