import json
S = {
"C01-o": ("parser keeps a per-message list of (type info, raw name field) and clones the stored name/unit for a later equal one", "two numeric VARI arguments of one message with equal type info and name but different unit"),
"C01-p": ("writer reuses the descriptor bytes (incl. fixed-point scaling) of an earlier argument with equal type info, name and unit", "two named fixed-point arguments with equal name/unit and different scaling"),
"C02-o": ("marker search for 'DLT' + version byte steps 4 instead of 3 after a failed candidate", "the bytes 'DLT' directly in front of a real marker"),
"C02-p": ("'headers longer than the declared length' verdict moved in front of the optional header fields", "short LEN and a buffer ending inside the optional fields (both verdicts admissible, see section 9)"),
"C03-o": ("minimum payload length from the header's verbose flag, branch chosen from the corrected flag: split_at(1) on an empty payload", "control message with verbose bit, NOAR 0 and an empty payload"),
"C03-p": ("hot path for one-string log lines computes size - 1", "verbose log message, one plain string argument of size 0, payload ending behind the size field"),
"C04-o": ("after a resync a candidate with a too-small payload is abandoned and the search goes on", "storage mode, junk in front, non-verbose/control record with a too-small payload, rejecting filter, a later marker"),
"C04-p": ("remainder moved back to a marker that follows the last decoded argument inside the declared payload", "verbose message whose arguments end before the declared end with a marker exactly there"),
"C05-o": ("skipper looks for a successor record inside an incomplete record", "payload carrying a stored record with the carrier's storage ECU id and counter + 1"),
"C05-p": ("marker hits whose storage and header ECU ids differ are distrusted in favour of a later consistent one", "carrier with differing ids carrying a record with agreeing ids, cut behind the carried record"),
"C06-o": ("after a resync an identical copy of the record just parsed is stepped over", "junk in front of a record that is directly followed by a byte-identical copy"),
"C06-p": ("search for 'DLT' + version byte restarts at a relative offset: endless loop", "two occurrences of 'DLT' not followed by 0x01 before the first marker"),
"C07-o": ("id pre-filter on raw bytes trims trailing NULs instead of stopping at the first", "filter with id sets, wire id with bytes behind its NUL, set holding the terminated prefix"),
"C07-p": ("read_message asserts that the parsed slice is used up", "storage mode, a piece that does not begin with the marker and carries a complete record that ends early"),
"C08-o": ("async read_message drops messages without extended header by the filter alone: len - header length underflows", "filter with count above set size, no extended header, LEN below the announced header length"),
"C08-p": ("async reader stops polling after two consecutive end-of-stream answers", "a source that answers Ready(0) twice in a row and delivers more later (outside the read contract, see C08-g)"),
"C09-o": ("lookup memo keyed by the id only, shared by the application / context / ECU criteria", "the same token in two roles, allowed in the first set and missing in the second"),
"C09-p": ("id criteria judged on borrowed ids that are trimmed of trailing NULs only", "wire id with bytes behind its NUL, set holding the terminated prefix"),
"C10-o": ("collector tables keyed by the id packed into a u32 with chars truncated to a byte", "two ids whose characters are congruent modulo 256 (A / Ł)"),
"C10-p": ("positional fast path for tables of equal length with equal first and last id, merging as it checks", "merge of two three-row tables that differ in the middle"),
"C11-o": ("one Entry match for both frame maps: a later definition with other ids overwrites the keyed entry", "three definitions of a frame id, the two later ones sharing an id pair"),
"C11-p": ("PHYSICAL-TYPE accepted as a fall-back for CODED-TYPE but given precedence", "a coding with both elements and different base types"),
"C12-o": ("frames sorted with a comparison that mixes numeric and lexical order (not a total order)", "more than 20 frames with an id like ID_16x among numeric ids"),
"C12-p": ("missing-attribute error quotes the tag by slicing the file at buffer_position", "byte order mark + a tag that lost its ID and ends in a non-ASCII attribute value"),
"C13-o": ("a too-short string/raw field is taken without prefix when the preceding U16 equals the bytes left", "U16 in front of a string/raw field whose own length prefix is missing"),
"C13-p": ("a string equal to the previous length-prefixed field is built unchecked", "raw field followed by a string with byte-identical invalid UTF-8 content"),
"C14-o": ("session id dropped when the ECU id field holds the same four bytes", "WEID and WSID with equal field contents"),
"C14-p": ("verbose control message with NOAR 0 and payload read as ControlMsg", "MSIN 0x17 / 0x27 with left-over payload, rebuilt from its parts"),
"C15-o": ("writer reuses the previous argument's bytes when type info, name and value agree", "adjacent arguments that differ only in unit or fixed-point scaling"),
"C15-p": ("Message::new debug-asserts unique variable names", "two named arguments with the same name in one payload"),
"C16-o": ("header ECU id written with the storage header's spelling when they agree up to trailing blanks", "storage and header ECU id that differ only in trailing white space"),
"C16-p": ("ControlType::value() derived from the MTIN conversion >> 4", "control message whose service id byte is 16 or more"),
"C17-o": ("from_ms memo stored in two steps around a trace! line", "a logger that stamps records with from_ms on the calling thread, then an input in the logger clock's second"),
"C17-p": ("process-wide two-word hint for from_us accessed Relaxed", "two threads converting instants of different seconds at the same time"),
"C18-o": ("I32 offsets below 2^53 added in f64", "product just below a whole number and an I32 offset above about 2^29"),
"C18-p": ("below-zero test in f64, subtraction in u64", "I64 offset without exact f64 image and value x quantization equal to its rounded image"),
"C19-o": ("header ECU id answered from the storage id when the field 'holds that id again' (prefix test)", "header ECU id a proper prefix of the storage ECU id"),
"C19-p": ("valid prefix located by searching the lossy conversion for U+FFFD", "a genuine U+FFFD followed by a cut / broken sequence"),
}
for k,(s,n) in S.items():
    p='/verif/seeded/%s/meta.json'%k
    m=json.load(open(p)); m['summary']=s; m['needs_to_manifest']=n
    m['origin']="independent sub-agent (round 8) given only the property text, the notes of earlier rounds for that property and a scratch worktree"
    json.dump(m,open(p,'w'),indent=1)
print(len(S))
