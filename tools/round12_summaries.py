import json
S = {
"C02-v": ("verbose argument loop stops when the payload is used up after at least one argument", "NOAR larger than the number of arguments that fit, LEN ending exactly behind the last one"),
"C03-v": ("skipper resyncs from inside the record's own storage header and subtracts 16", "marker inside the storage header's own fields and a stray byte behind the declared length"),
"C04-v": ("marker search via memchr for 'D' steps over four bytes after a wrong version byte", "'DLT' glued in front of a real marker, with a later record"),
"C05-v": ("short storage header reports 30 - len as hint", "stored record shorter than 30 bytes, cut inside the storage header"),
"C06-v": ("search for the marker tail 'T\\x01' resumes six bytes behind a stray tail", "a stray 'T\\x01' one or two bytes in front of a real marker"),
"C07-v": ("body read ignores 'source ended before the first byte'", "stream truncated exactly behind the fixed header of its last record"),
"C08-v": ("async reader refuses a length below the announced header size without reading the body", "length between 4 and the header size implied by the header type"),
"C09-v": ("app and context deficits summed and saturated for messages without extended header", "both sets given, one total above and the other below its set size"),
"C10-v": ("LevelDistribution::merge overwrites when its own total (without log_invalid) is zero", "an id that so far has only invalid-level log messages"),
"C11-v": ("coding ids in the signal map replaced by base types after loading", "a dangling CODING-REF spelled like a base data type"),
"C12-v": ("gap report counts up from the previous sequence number", "two PDU instances with the same sequence number in one frame"),
"C13-v": ("string validated together with the bytes that follow it, then sliced at its length", "a string that ends inside a character whose continuation bytes follow in the next field"),
"C14-v": ("blank header ECU id replaced by None when the storage header names an ECU", "stored message with WEID and a blank header ECU id"),
"C15-v": ("network-trace writer skips a slice equal to its predecessor", "two neighbouring byte-equal slices"),
"C16-v": ("argument count of non-verbose messages written as 0", "non-verbose message with a non-zero NOAR byte"),
"C17-v": ("constructors trace the stamp through a Display impl whose calendar breaks on 2101-01-01", "a logger that formats its records and an instant on that day"),
"C18-v": ("unscaled fast path (quantization 1.0, offset I32(0)) keeps all 64 bits", "64-bit value above 2^53 that is not a double"),
"C19-v": ("blank header ECU id becomes None when the storage ECU id is blank too", "stored message with WEID, both ECU id fields blank"),
}
for k,(s,n) in S.items():
    p='/verif/seeded/%s/meta.json'%k
    m=json.load(open(p)); m['summary']=s; m['needs_to_manifest']=n
    m['origin']="independent sub-agent (round 12) given only the property text, the notes of earlier rounds for that property and a scratch worktree"
    json.dump(m,open(p,'w'),indent=1)
print(len(S))
